"""Sidecar contracts for websocket-client (see DESIGN.md sections 3-5)."""
