"""Contracts for websocket/_abnf.py (ABNF: validate, mask, format ...) and websocket/_utils.py (UTF-8 validator)."""
import z3
from pyvc import smt
from pyvc import models as _M
from pyvc.engine import Contract
from pyvc.values import SV, Ref, Ext, z, tag_of
from pyvc.smt import slen, at, slc, cat, unit
from . import spec
import websocket._exceptions as X

A = "websocket._abnf:"
U = "websocket._utils:"


def abnf_shape(data="bytes", keysrc="keysource"):
    return ("obj", "websocket._abnf.ABNF", dict(fin="int", rsv1="int", rsv2="int", rsv3="int", opcode="int",
                                                mask_value="int", data=data, get_mask_key=("ext", keysrc)))


def F(c, ref, *names, view=None):
    v = view or c
    return [z(v.getf(ref, n)) for n in names]


def header_shaped(c, fr):
    fin, r1, r2, r3, op = F(c, fr, "fin", "rsv1", "rsv2", "rsv3", "opcode")
    return z3.And(*[z3.And(0 <= x, x <= 1) for x in (fin, r1, r2, r3)], 0 <= op, op <= 15)


def frame_ok(c, fr, skip, mode, view=None):
    fin, r1, r2, r3, op, data = F(c, fr, "fin", "rsv1", "rsv2", "rsv3", "opcode", "data", view=view)
    return spec.rfc_ok(fin, r1, r2, r3, op, data, z(skip, "bool") if not isinstance(skip, bool) else z3.BoolVal(skip), mode)


def ascii_axioms():
    s = z3.Const("s", smt.S)
    return [z3.ForAll([s], z3.Implies(_M.is_ascii(s), z3.And(_M.latin1_ok(s), _M.utf8_encodable(s),
                                                            _M.latin1_enc(s) == smt.utf8_enc(s),
                                                            slen(smt.utf8_enc(s)) == z3.Length(s))),
                      patterns=[_M.is_ascii(s)])]


def keybytes(k):
    """Wire bytes of a mask key value (bytes, or ASCII str encoded)."""
    return z(k) if tag_of(k) == "bytes" else smt.utf8_enc(z(k))


def key_ok(k):
    return z3.And(slen(keybytes(k)) == 4, True if tag_of(k) == "bytes" else _M.is_ascii(z(k)))


def fmt_fields(c, fr, view=None):
    return F(c, fr, "fin", "rsv1", "rsv2", "rsv3", "opcode", "mask_value", "data", view=view)


def fmt_bad_fields(fin, r1, r2, r3, op, data):
    flags_ok = z3.And(*[z3.Or(x == 0, x == 1) for x in (fin, r1, r2, r3)])
    return z3.Not(z3.And(flags_ok, spec.known_opcode(op), slen(data) < 2 ** 63))


def install(e):
    smt.AXIOMS.extend(spec.utf8_axioms())
    smt.AXIOMS.extend(ascii_axioms())

    # ================================================================= UTF-8 validator (C06)
    def vu_cases():
        return [("bytes", lambda c: dict(utfbytes=c.fresh("bytes", "b")))]

    def vu_ens(c, old, a, res):
        return z(res, "bool") == smt.wf_utf8(z(a["utfbytes"]))
    e.add(Contract(U + "validate_utf8", cases=vu_cases(), ensures=vu_ens, result=lambda c, a: c.fresh("bool", "valid"),
                   props=("C06", "C05", "C17"), doc="result <=> wf_utf8(arg) (Unicode Table 3-7)"))
    e.add(Contract(U + "_validate_utf8", cases=vu_cases(), ensures=vu_ens, result=lambda c, a: c.fresh("bool", "valid"),
                   props=("C06",)))
    # simulation relation between the code's DFA states and the spec automaton (proof artefact)
    R = {0: 0, 24: 1, 36: 2, 48: 3, 60: 4, 72: 5, 84: 6, 96: 7, 12: 8}

    def enc_state(u):
        t = z3.IntVal(12)
        for code, us in R.items():
            t = z3.If(u == us, code, t)
        return t

    def vu_inv(c, fr, entry):
        b = z(fr.locals["utfbytes"])
        i = z(fr.locals["$i0"])
        st = z(fr.locals["state"], "int")
        return z3.And(st == enc_state(spec.ustate(b, i)), spec.ustate(b, i) != spec.U_TRAP)
    e.loop("_validate_utf8", 0, inv=vu_inv, facts=lambda c, fr: [spec.umark(z(fr.locals["utfbytes"]), z(fr.locals["$i0"]))],
           shapes={"state": "int", "codep": "int"})

    # ================================================================= ABNF.validate (C05)
    def val_case(c):
        fr = c.fresh(abnf_shape("bytes"), "frame")
        return dict(self=fr, skip_utf8_validation=c.fresh("bool", "skip"))
    e.add(Contract(
        A + "ABNF.validate", cases=[("bytes", val_case)], requires=lambda c, a: header_shaped(c, a["self"]),
        ensures=lambda c, old, a, res: frame_ok(c, a["self"], a["skip_utf8_validation"], "not_must_reject"),
        raises=[(X.WebSocketProtocolException,
                 lambda c, old, a: z3.Not(frame_ok(c, a["self"], a["skip_utf8_validation"], "must_accept", view=old)), None)],
        props=("C05", "C06", "C17"),
        doc="normal => rfc_ok (no must-reject close code); protocol exception => not rfc_ok (must-accept codes)"))

    # ================================================================= key sources (assumed; DESIGN section 3)
    def ks_result(kind):
        def res(c, a):
            n = z(a["$args"][0], "int")
            if kind == "bytes":
                k = c.fresh("bytes", "key")
                c.assume(slen(k.t) == n)
            else:
                k = c.fresh("str", "key")
                c.assume(_M.is_ascii(k.t))
                c.assume(z3.Length(k.t) == n)
            d = z(c.ghost["draws"])
            c.assume(spec.keyfn(d) == keybytes(k))
            src = a.get("self")
            c.assume(spec.srcfn(d) == (src.id if isinstance(src, Ext) else 0))
            c.ghost["draws"] = SV("int", d + 1)
            return k
        return res
    for kind, name in (("bytes", "ext:keysource.__call__"), ("str", "ext:keysource_str.__call__"), ("bytes", "posix:urandom")):
        e.add(Contract(name, assumed=True, result=ks_result(kind), havoc=lambda c, a, old, k: None,
                       doc="key source: returns n bytes (or an n-character ASCII str); draws' = draws+1, key(draws) = result, "
                           "keysrc(draws) = identity of the source"))

    def ghost0(c):
        if "draws" not in c.ghost:
            c.ghost["draws"] = c.fresh("int", "draws")
            c.assume(z(c.ghost["draws"]) >= 0)

    # ================================================================= _mask / ABNF.mask / _get_masked (C01, C02)
    e.add(Contract(A + "_mask", cases=[("bytes", lambda c: dict(mask_value=c.fresh("bytes", "mask"), data_value=c.fresh("bytes", "data")))],
                   requires=lambda c, a: slen(z(a["mask_value"])) == 4,
                   ensures=lambda c, old, a, res: c.eq(z(res), smt.xormask(z(a["data_value"]), z(a["mask_value"]))),
                   result=lambda c, a: c.fresh("bytes", "masked"), props=("C01", "C02"),
                   doc="result = data xor mask cyclically: len r = len data, r[i] = data[i] xor mask[i mod 4]"))

    def mask_cases():
        def mk(kk, dk):
            def case(c):
                k = c.fresh(kk, "key")
                return dict(mask_key=k, data=c.fresh(dk, "data"))
            return case
        return [(f"{kk}-{dk}", mk(kk, dk)) for kk in ("bytes", "str") for dk in ("bytes", "bytearray")]
    e.add(Contract(A + "ABNF.mask", cases=mask_cases(), requires=lambda c, a: key_ok(a["mask_key"]),
                   ensures=lambda c, old, a, res: c.eq(z(res), smt.xormask(z(a["data"]), keybytes(a["mask_key"]))),
                   result=lambda c, a: c.fresh("bytes", "masked"), props=("C01", "C02")))

    def gm_cases():
        def mk(kk):
            return lambda c: dict(self=c.fresh(abnf_shape("bytes"), "frame"), mask_key=c.fresh(kk, "key"))
        return [(kk, mk(kk)) for kk in ("bytes", "str")]
    e.add(Contract(A + "ABNF._get_masked", cases=gm_cases(), requires=lambda c, a: key_ok(a["mask_key"]),
                   ensures=lambda c, old, a, res: c.eq(z(res), cat(keybytes(a["mask_key"]),
                                                                  smt.xormask(z(c.getf(a["self"], "data")), keybytes(a["mask_key"])))),
                   result=lambda c, a: c.fresh("bytes", "keyed"), props=("C01",)))

    # ================================================================= ABNF.format (C01)
    def fmt_cases():
        def mk(ks):
            def case(c):
                ghost0(c)
                return dict(self=c.fresh(abnf_shape("bytes", ks), "frame"))
            return case
        return [("key-bytes", mk("keysource")), ("key-str", mk("keysource_str"))]

    def fmt_bad(c, old, a):
        fin, r1, r2, r3, op, mv, data = fmt_fields(c, a["self"], view=old)
        return fmt_bad_fields(fin, r1, r2, r3, op, data)

    def fmt_post(c, old, a, res):
        fin, r1, r2, r3, op, mv, data = fmt_fields(c, a["self"], view=old)
        d0 = z(old.ghost["draws"])
        src = old.getf(a["self"], "get_mask_key")
        return z3.And(z3.Not(fmt_bad(c, old, a)),
                      z(c.ghost["draws"]) == d0 + z3.If(mv == 1, 1, 0),
                      z3.Implies(mv == 1, spec.srcfn(d0) == (src.id if isinstance(src, Ext) else 0)),
                      z3.Implies(mv == 1, slen(spec.keyfn(d0)) == 4),
                      c.eq(z(res), spec.rfc_encode(fin, r1, r2, r3, op, mv, spec.keyfn(d0), data)))

    def fmt_havoc(c, a, old, k):
        if k == 0:
            c.ghost["draws"] = c.fresh("int", "draws")
    e.add(Contract(A + "ABNF.format", cases=fmt_cases(),
                   requires=lambda c, a: z3.And(z3.Or(z(c.getf(a["self"], "mask_value")) == 0, z(c.getf(a["self"], "mask_value")) == 1),
                                               z3.BoolVal(tag_of(c.getf(a["self"], "data")) == "bytes")),
                   ensures=fmt_post, raises=[(ValueError, fmt_bad, None)], modifies=lambda c, a: ["ghost:draws"],
                   havoc=fmt_havoc, result=lambda c, a: c.fresh("bytes", "wirebytes"), props=("C01", "C07", "C12"),
                   doc="result = rfc_encode(fields, key = the one value drawn from the frame's key source), shortest length form; "
                       "ValueError iff a flag is not 0/1, the opcode is unknown or the payload has 2^63 bytes or more"))

    # ================================================================= ABNF.create_frame (C01)
    def cf_cases():
        def mk(dk):
            return lambda c: dict(data=c.fresh(dk, "data"), opcode=c.fresh("int", "opcode"), fin=c.fresh("int", "fin"))
        return [(dk, mk(dk)) for dk in ("bytes", "bytearray", "str")]

    def cf_post(c, old, a, res):
        fin, r1, r2, r3, op, mv = F(c, res, "fin", "rsv1", "rsv2", "rsv3", "opcode", "mask_value")
        d = c.getf(res, "data")
        base = z3.And(fin == z(a["fin"]), r1 == 0, r2 == 0, r3 == 0, op == z(a["opcode"]), mv == 1)
        if tag_of(a["data"]) == "str":
            if tag_of(d) == "bytes":
                return z3.And(base, z(a["opcode"]) == 1, c.eq(z(d), smt.utf8_enc(z(a["data"]))))
            return z3.And(base, z(a["opcode"]) != 1, z(d) == z(a["data"]))
        return z3.And(base, z3.BoolVal(tag_of(d) == "bytes"), c.eq(z(d), z(a["data"])))
    e.add(Contract(A + "ABNF.create_frame", cases=cf_cases(), ensures=cf_post, inline_at_calls=True,
                   raises=[(UnicodeEncodeError, lambda c, old, a: z3.BoolVal(tag_of(a["data"]) == "str"), None)],
                   props=("C01",), doc="fields as requested, reserved bits 0, mask requested; text str payload is its UTF-8 encoding"))


def lemma_trap(e):
    x = z3.Int("x")
    e.lemma("utf8.trap_absorbing.step", [], z3.ForAll([x], spec.step_u(z3.IntVal(spec.U_TRAP), x) == spec.U_TRAP), props=("C06",))
    s_ = z3.Int("s")
    e.lemma("utf8.step_total", [], z3.ForAll([s_, x], z3.Implies(z3.And(0 <= s_, s_ <= 8), z3.And(0 <= spec.step_u(s_, x), spec.step_u(s_, x) <= 8))), props=("C06",))


def lemma_roundtrip(e):
    """L-RT: an independent RFC decoder applied to rfc_encode(frame) ++ tail recovers exactly the frame (C01)."""
    fin, r1, r2, r3, op, mv = z3.Ints("fin r1 r2 r3 op mv")
    key, pay, tail = z3.Consts("key pay tail", smt.Sq)
    n = slen(pay)
    hyp = [z3.And(*[z3.Or(x == 0, x == 1) for x in (fin, r1, r2, r3, mv)]), 0 <= op, op <= 15, n < 2 ** 63, slen(key) == 4]
    enc = spec.rfc_encode(fin, r1, r2, r3, op, mv, key, pay)
    d = spec.Dec(cat(enc, tail), z3.IntVal(0))
    for nm, lo, hi in (("len<=125", 0, 125), ("len<=65535", 126, 65535), ("len>65535", 65536, 2 ** 63 - 1)):
        h = hyp + [n >= lo, n <= hi]
        e.lemma(f"L-RT.header[{nm}]", h, z3.And(d.fin == fin, d.rsv1 == r1, d.rsv2 == r2, d.rsv3 == r3, d.opcode == op,
                                               d.masked == mv, d.length == n, d.next == slen(enc)), props=("C01",))
        e.lemma(f"L-RT.payload[{nm}]", h, smt.seq_eq(d.payload, pay), props=("C01",))
        e.lemma(f"L-RT.key[{nm}]", h + [mv == 1], smt.seq_eq(d.key, key), props=("C01",))
        e.lemma(f"L-LEN[{nm}]", h, slen(enc) == n + (2 if hi == 125 else 4 if hi == 65535 else 10) + 4 * mv, props=("C01",))


LEMMAS = {"lemma:utf8.trap_absorbing": lemma_trap, "lemma:roundtrip": lemma_roundtrip}
