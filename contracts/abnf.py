"""Contracts for websocket/_abnf.py and websocket/_utils.py (UTF-8 validator)."""
import z3
from pyvc import smt
from pyvc.engine import Contract
from pyvc.values import SV, Ref, Ext, z
from pyvc.smt import slen, at, slc, cat, unit
from . import spec
import websocket._exceptions as X

A = "websocket._abnf:"
U = "websocket._utils:"


def abnf_shape(data="bytes"):
    return ("obj", "websocket._abnf.ABNF", dict(fin="int", rsv1="int", rsv2="int", rsv3="int", opcode="int",
                                                mask_value="int", data=data, get_mask_key=("ext", "keysource")))


def F(c, ref, *names, view=None):
    v = view or c
    return [z(v.getf(ref, n)) for n in names]


def header_shaped(c, fr):
    fin, r1, r2, r3, op = F(c, fr, "fin", "rsv1", "rsv2", "rsv3", "opcode")
    return z3.And(*[z3.And(0 <= x, x <= 1) for x in (fin, r1, r2, r3)], 0 <= op, op <= 15)


def frame_ok(c, fr, skip, mode, view=None):
    fin, r1, r2, r3, op, data = F(c, fr, "fin", "rsv1", "rsv2", "rsv3", "opcode", "data", view=view)
    return spec.rfc_ok(fin, r1, r2, r3, op, data, z(skip, "bool") if not isinstance(skip, bool) else z3.BoolVal(skip), mode)


def install(e):
    smt.AXIOMS.extend(spec.utf8_axioms())

    # ---- validate_utf8 / _validate_utf8 ---------------------------------------------------
    def vu_cases():
        return [("bytes", lambda c: dict(utfbytes=c.fresh("bytes", "b")))]

    def vu_ens(c, old, a, res):
        return z(res, "bool") == smt.wf_utf8(z(a["utfbytes"]))
    e.add(Contract(U + "validate_utf8", cases=vu_cases(), ensures=vu_ens, result=lambda c, a: c.fresh("bool", "valid"),
                   props=("C06", "C05", "C17"), doc="result <=> wf_utf8(arg) (Unicode Table 3-7)"))
    e.add(Contract(U + "_validate_utf8", cases=vu_cases(), ensures=vu_ens, result=lambda c, a: c.fresh("bool", "valid"),
                   props=("C06",)))

    # simulation relation between the code's DFA states and the spec automaton (proof artefact)
    R = {0: 0, 24: 1, 36: 2, 48: 3, 60: 4, 72: 5, 84: 6, 96: 7, 12: 8}

    def enc_state(u):
        t = z3.IntVal(12)
        for code, us in R.items():
            t = z3.If(u == us, code, t)
        return t

    def vu_inv(c, fr, entry):
        b = z(fr.locals["utfbytes"])
        i = z(fr.locals["$i0"])
        st = z(fr.locals["state"], "int")
        return z3.And(st == enc_state(spec.ustate(b, i)), spec.ustate(b, i) != spec.U_TRAP)

    def vu_facts(c, fr):
        b = z(fr.locals["utfbytes"])
        return [spec.umark(b, z(fr.locals["$i0"]))]
    e.loop("_validate_utf8", 0, inv=vu_inv, facts=vu_facts, shapes={"state": "int", "codep": "int"})

    # ---- ABNF.validate ----------------------------------------------------------------------
    def val_case(c):
        fr = c.fresh(abnf_shape("bytes"), "frame")
        return dict(self=fr, skip_utf8_validation=c.fresh("bool", "skip"))

    def val_req(c, a):
        return header_shaped(c, a["self"])
    e.add(Contract(
        A + "ABNF.validate", cases=[("bytes", val_case)], requires=val_req,
        ensures=lambda c, old, a, res: frame_ok(c, a["self"], a["skip_utf8_validation"], "not_must_reject"),
        raises=[(X.WebSocketProtocolException,
                 lambda c, old, a: z3.Not(frame_ok(c, a["self"], a["skip_utf8_validation"], "must_accept", view=old)),
                 None)],
        props=("C05", "C06", "C17"),
        doc="normal => rfc_ok (no must-reject close code); protocol exception => not rfc_ok (must-accept codes)"))


def lemma_trap(e):
    x = z3.Int("x")
    e.lemma("utf8.trap_absorbing.step", [], z3.ForAll([x], spec.step_u(z3.IntVal(spec.U_TRAP), x) == spec.U_TRAP), props=("C06",))
    s_ = z3.Int("s")
    e.lemma("utf8.step_total", [], z3.ForAll([s_, x], z3.Implies(z3.And(0 <= s_, s_ <= 8), z3.And(0 <= spec.step_u(s_, x), spec.step_u(s_, x) <= 8))), props=("C06",))


LEMMAS = {"lemma:utf8.trap_absorbing": lemma_trap}
