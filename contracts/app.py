"""Contracts for websocket/_app.py (WebSocketApp, closures of run_forever) and websocket/_dispatcher.py (C13-C16)."""
import z3
from pyvc import smt
from pyvc.engine import Contract
from pyvc.interp import Frame
from pyvc.values import SV, Ref, Ext, ExcVal, Closure, BoundMethod, OptV, z, zn, unopt, isnone, tag_of
from pyvc.smt import slen, at, slc, cat, unit, Int, Sq, S
from . import spec
from .core import mk_ws, WSI, ghost_close, ghost_conn
from .recv import FB, CF, ghost_msg
import websocket._exceptions as X
import websocket._app as app_mod
import websocket._core as core_mod

P = "websocket._app:"
RF = "WebSocketApp.run_forever.<locals>."

# ---------------------------------------------------------------- ghost callback logs
Event = z3.Datatype("Event")
_fields = [("cb", Int)]
for _p in range(3):
    _fields += [(f"k{_p}", Int), (f"b{_p}", Sq), (f"s{_p}", S), (f"i{_p}", Int)]
Event.declare("ev", *_fields)
Event = Event.create()
Log = z3.Datatype("Log")
Log.declare("nil")
Log.declare("snoc", ("init", Log), ("last", Event))
Log = Log.create()
K_ABSENT, K_NONE, K_BYTES, K_STR, K_INT = 0, 1, 2, 3, 4


def _enc_arg(a):
    """(kind, bytes, str, int) encoding of one callback argument."""
    e0, s0, i0 = smt.empty, z3.StringVal(""), z3.IntVal(0)
    if isinstance(a, OptV):
        k, b, s_, i = _enc_arg(a.val)
        return (z3.If(a.isnone, K_NONE, k), z3.If(a.isnone, e0, b), z3.If(a.isnone, s0, s_), z3.If(a.isnone, i0, i))
    tg = tag_of(a)
    if a is None:
        return (z3.IntVal(K_NONE), e0, s0, i0)
    if tg == "bytes":
        return (z3.IntVal(K_BYTES), z(a), s0, i0)
    if tg == "str":
        return (z3.IntVal(K_STR), e0, z(a), i0)
    if tg in ("int", "bool"):
        return (z3.IntVal(K_INT), e0, s0, z(a, "int"))
    return (z3.IntVal(K_ABSENT), e0, s0, i0)  # other objects (exceptions, frames): identity not recorded


def mk_event(cbid, args):
    """Event record of one callback invocation: callback identity and up to three positional arguments."""
    fields = [z3.IntVal(cbid) if isinstance(cbid, int) else cbid]
    args = list(args)[:3]
    for a in args:
        fields += list(_enc_arg(a))
    for _ in range(3 - len(args)):
        fields += [z3.IntVal(K_ABSENT), smt.empty, z3.StringVal(""), z3.IntVal(0)]
    return Event.ev(*fields)


def ghost_app(c):
    g = c.ghost
    if "dl" in g:
        return
    g["dl"] = SV("log", smt.fresh(Log, "dl"))      # callbacks delivered through WebSocketApp._callback, in order
    g["raw"] = SV("log", smt.fresh(Log, "raw"))    # every user-callback invocation, incl. exceptions forwarded to on_error
    g["teardowns"] = c.fresh("int", "teardowns")
    for n in ("attempts", "opened_handles", "resched", "live_ping_threads"):
        g.setdefault(n, c.fresh("int", n))
    g.setdefault("last_attempt_clock", c.fresh("real", "last_attempt_clock"))
    # D: number of callbacks other than on_error delivered after this run's on_close (-1 while on_close is still to come)
    g.setdefault("D", c.fresh("int", "D"))


CB_NAMES = ["on_open", "on_reconnect", "on_message", "on_data", "on_error", "on_close", "on_ping", "on_pong", "on_cont_message"]


app_ws = {}  # app Ref id -> its WebSocket Ref (for frame conditions after app.sock was dropped)


def mk_app(c, sock="opt", cont=None, **fixed):
    """Symbolic WebSocketApp.  Callbacks are lazily optional external callables."""
    ghost_conn(c)
    ghost_close(c)
    ghost_msg(c)
    ghost_app(c)
    app = c.alloc("obj", app_mod.WebSocketApp, {})
    for n in CB_NAMES:
        if n == "on_cont_message" and cont is not None:
            c.setf(app, n, c.new_ext("callback", name=n) if cont else None)
        else:
            c.setf(app, n, OptV(smt.fresh(smt.Bool, n + ".isnone"), c.new_ext("callback", name=n)))
    c.setf(app, "keep_running", c.fresh("bool", "keep_running"))
    c.setf(app, "has_errored", c.fresh("bool", "has_errored"))
    c.setf(app, "has_done_teardown", c.fresh("bool", "has_done_teardown"))
    c.setf(app, "has_done_teardown_lock", c.new_ext("Lock", name="teardown_lock"))
    for n in ("last_ping_tm", "last_pong_tm", "ping_interval"):
        c.setf(app, n, c.fresh("real", n))
    c.setf(app, "ping_timeout", c.fresh(("opt", "real"), "ping_timeout"))
    c.setf(app, "ping_payload", c.fresh("str", "ping_payload"))
    c.setf(app, "stop_ping", c.fresh(("opt", ("ext", "Event")), "stop_ping"))
    c.setf(app, "ping_thread", c.fresh(("opt", ("ext", "Thread")), "ping_thread"))
    c.setf(app, "url", c.fresh("str", "url"))
    c.setf(app, "header", ())
    c.setf(app, "cookie", None)
    c.setf(app, "subprotocols", None)
    c.setf(app, "get_mask_key", None)
    c.setf(app, "prepared_socket", None)
    if sock == "opt":
        fire = None if cont is None else bool(cont)
        ws = mk_ws(c, recv_state="any", keysrc="none", fire=fire, sock="opt")
        c.setf(app, "sock", OptV(smt.fresh(smt.Bool, "app.sock.isnone"), ws))
        app_ws[app.id] = ws
    elif sock == "none":
        c.setf(app, "sock", None)
    for k, v in fixed.items():
        c.setf(app, k, v)
    return app


def app_ws_inv(c, app, view=None):
    """The app's WebSocket (when there is one) satisfies its own invariants."""
    v = view or c
    s = v.getf(app, "sock")
    ws = unopt(s)
    if ws is None:
        return z3.BoolVal(True)
    inv = z3.And(FB(c, v.getf(ws, "frame_buffer"), view), CF(c, v.getf(ws, "cont_frame"), view), WSI(c, ws, view))
    return z3.Implies(z3.Not(zn(s)), inv)


def app_closed_by_callback(c, app):
    """effect of app.close() possibly called from a user callback (symbolic flag, no path fork): not running any more,
    socket closed (handle released) and dropped."""
    b = smt.fresh(smt.Bool, "closed_by_callback")
    had = has_transport(c, app)
    c.ghost["closed_handles"] = SV("int", z(c.ghost["closed_handles"]) + z3.If(z3.And(b, had), 1, 0))
    kr = c.getf(app, "keep_running")
    c.setf(app, "keep_running", SV("bool", z3.And(z3.Not(b), z(kr, "bool"))))
    s_ = c.getf(app, "sock")
    ws = unopt(s_)
    c.setf(app, "sock", None if ws is None else OptV(z3.Or(b, zn(s_)), ws))
    for g, tg in (("auto_close", "int"), ("wire", "bytes")):
        c.ghost[g] = SV(tg, z3.If(b, smt.fresh(smt.Int if tg == "int" else smt.Sq, g), z(c.ghost[g])))


def havoc_sock(c, app, old):
    """app.sock afterwards: still the same WebSocket object, or dropped."""
    s_ = old.getf(app, "sock")
    ws = unopt(s_)
    c.setf(app, "sock", None if ws is None else OptV(smt.fresh(smt.Bool, "app.sock.isnone"), ws))


def cur_ws(c, app, old=None):
    """WebSocket objects a closure may touch: the app's current one (and the one it had at entry)."""
    out = []
    for v in ([old] if old is not None else []) + [c]:
        try:
            w = unopt(v.getf(app, "sock"))
        except KeyError:
            w = None
        if isinstance(w, Ref) and w.id in c.heap and all(w.id != x.id for x in out):
            out.append(w)
    w = app_ws.get(app.id)
    if w is not None and w.id in c.heap and all(w.id != x.id for x in out):
        out.append(w)
    return out


def d_step(D, cb, oe):
    """D after one _callback(cb, ...) call: +1 unless cb is unset or is the on_error callback itself."""
    ext, oex = unopt(cb), unopt(oe)
    if ext is None:
        return D
    is_err = z3.BoolVal(False) if oex is None else z3.And(z3.Not(zn(oe)), z3.BoolVal(ext.id == oex.id))
    return D + z3.If(z3.Or(zn(cb), is_err), 0, 1)


def D_OK(c, old, app):
    """whatever happened, no callback other than on_error was delivered after this run's on_close."""
    done0, done1 = z(old.getf(app, "has_done_teardown"), "bool"), z(c.getf(app, "has_done_teardown"), "bool")
    D0, D1 = z(old.ghost["D"]), z(c.ghost["D"])
    base = z3.And(z3.Implies(z3.And(done1, done0), D1 <= z3.If(D0 > 0, D0, 0)), z3.Implies(z3.And(done1, z3.Not(done0)), D1 <= 0))
    if "teardowns" not in c.ghost or "teardowns" not in old.ghost or "live_ping_threads" not in c.ghost:
        return base
    # teardown accounting: the once-only flag never goes back, the counter moves exactly when the flag is set, and once the run
    # is torn down it stays without socket and without ping thread (only setSock creates either, and only before teardown)
    def ended(v):
        return z3.Implies(z(v.getf(app, "has_done_teardown"), "bool"), z3.And(zn(v.getf(app, "sock")), z(v.ghost["live_ping_threads"], "int") == 0))
    return z3.And(base, z3.Implies(done0, done1),
                  z(c.ghost["teardowns"]) == z(old.ghost["teardowns"]) + z3.If(z3.And(done1, z3.Not(done0)), 1, 0),
                  z3.Implies(ended(old), ended(c)))


def log_append(log, cb, args):
    """log ++ [ev(cb, args)] unless the callback is not set."""
    ext = unopt(cb)
    if ext is None:
        return log
    return z3.If(zn(cb), log, Log.snoc(log, mk_event(ext.id, args)))


TD_GH = ["dl", "raw", "D", "teardowns", "live_ping_threads", "closed_handles", "auto_close", "wire", "tx_calls", "draws", "rpos", "rx_calls",
         "fstart", "lastf", "clock"]


def install(e):
    install_callbacks(e)
    install_small(e)
    install_threads(e)
    install_teardown(e)
    install_loop(e)
    install_read(e)
    install_run(e)
    install_run2(e)
    install_run3(e)
    install_run_forever(e)
    install_ping(e)


def install_callbacks(e):
    # ---- a user callback (assumed; DESIGN section 3) -------------------------------------------
    def cb_havoc(c, a, old, k):
        cb = a["self"]
        args = a["$args"]
        app = args[0]
        c.ghost["raw"] = SV("log", Log.snoc(z(c.ghost["raw"]), mk_event(cb.id, args[1:])))
        # a callback may call app.close(): keep_running' = False and the socket is dropped
        if isinstance(app, Ref) and c.hasf(app, "keep_running"):
            app_closed_by_callback(c, app)
    e.add(Contract("ext:callback.__call__", assumed=True, havoc=cb_havoc,
                   # "any Exception subclass" is represented by Exception itself and by the subclasses the library's own handlers
                   # single out: one of the library's exceptions (e.g. from a send() made inside the callback) and OSError
                   raises=[(Exception, None, None), (X.WebSocketConnectionClosedException, None, None), (OSError, None, None),
                           (KeyboardInterrupt, None, None), (SystemExit, None, None)],
                   doc="user callback: appends its invocation to the raw log; may raise any Exception subclass, KeyboardInterrupt or "
                       "SystemExit; may call app.close() (keep_running' = False, app.sock' = None)"))

    # ---- WebSocketApp._callback -----------------------------------------------------------------
    def cbk_case(nargs):
        def case(c):
            app = mk_app(c, sock="opt")
            cb = OptV(smt.fresh(smt.Bool, "cb.isnone"), c.new_ext("callback", name="cb"))
            shapes = [["bytes"], ["str"], ["bytes", "int", "int"], ["str", "int", "bool"], [], [("opt", "int"), ("opt", "str")]][nargs]
            return dict(self=app, callback=cb, args=tuple(c.fresh(s, f"arg{i}") for i, s in enumerate(shapes)))
        return case

    def cbk_args(a):
        return a["args"] if "args" in a else tuple(a.get("$args", ()))

    def cbk_post(c, old, a, res):
        app, cb = a["self"], a["callback"]
        args = cbk_args(a)
        dl0, raw0 = z(old.ghost["dl"]), z(old.ghost["raw"])
        ext = unopt(cb)
        oe = old.getf(app, "on_error")
        if ext is None:
            return z3.And(z(c.ghost["dl"]) == dl0, z(c.ghost["raw"]) == raw0, z(c.ghost["D"]) == z(old.ghost["D"]))
        ev = mk_event(ext.id, args)
        called = Log.snoc(raw0, ev)
        fwd = z3.BoolVal(False) if unopt(oe) is None else z3.And(
            z3.Not(zn(oe)), z(c.ghost["raw"]) == Log.snoc(called, mk_event(unopt(oe).id, ())))
        return z3.And(
            z(c.ghost["dl"]) == z3.If(zn(cb), dl0, Log.snoc(dl0, ev)),
            z3.Implies(zn(cb), z(c.ghost["raw"]) == raw0),
            z3.Implies(z3.Not(zn(cb)), z3.Or(z(c.ghost["raw"]) == called, fwd)),
            LIVE(c, app), z(c.ghost["D"]) == d_step(z(old.ghost["D"]), cb, oe))

    def cbk_exc_post(c, old, a, exc):
        # the callback (or on_error itself) raised: the invocation is on the logs all the same
        app, cb = a["self"], a["callback"]
        ext = unopt(cb)
        if ext is None:
            return z3.BoolVal(False)
        ev = mk_event(ext.id, cbk_args(a))
        return z3.And(z3.Not(zn(cb)), z(c.ghost["dl"]) == Log.snoc(z(old.ghost["dl"]), ev), LIVE(c, app),
                      z(c.ghost["D"]) == d_step(z(old.ghost["D"]), cb, old.getf(app, "on_error")))

    def cbk_havoc(c, a, old, k):
        app = a["self"]
        for g in ("dl", "raw"):
            c.ghost[g] = SV("log", smt.fresh(Log, g))
        c.ghost["D"] = c.fresh("int", "D")
        # callbacks may have closed the app
        if unopt(a["callback"]) is not None:
            app_closed_by_callback(c, app)

    def cbk_ghost_entry(c, a):
        # definition of the delivery log: one entry per _callback call whose callback is set
        c.ghost["dl"] = SV("log", log_append(z(c.ghost["dl"]), a["callback"], cbk_args(a)))
        c.ghost["D"] = SV("int", d_step(z(c.ghost["D"]), a["callback"], c.getf(a["self"], "on_error")))
    def cbk_case_onerror(c):
        app = mk_app(c, sock="opt")
        return dict(self=app, callback=c.getf(app, "on_error"), args=())
    e.add(Contract(P + "WebSocketApp._callback", cases=[(f"args{n}", cbk_case(n)) for n in range(6)] + [("callback-is-on_error", cbk_case_onerror)],
                   requires=lambda c, a: LIVE(c, a["self"]), ensures=cbk_post, havoc=cbk_havoc,
                   raises=[(KeyboardInterrupt, None, cbk_exc_post), (SystemExit, None, cbk_exc_post),
                           (Exception, lambda c, old, a: z3.Not(zn(old.getf(a["self"], "on_error"))), cbk_exc_post)],
                   modifies=lambda c, a: ["ghost:dl", "ghost:raw", "ghost:D", "ghost:closed_handles", "ghost:auto_close", "ghost:wire",
                                          (a["self"], "keep_running"), (a["self"], "sock")],
                   ghost_entry=cbk_ghost_entry, props=("C13", "C14"),
                   doc="callback unset: nothing happens; else exactly one invocation with exactly the given arguments (delivery log dl), and if it "
                       "raises an Exception subclass and on_error is set, exactly one on_error call follows and _callback returns normally; "
                       "KeyboardInterrupt / SystemExit (and an exception out of on_error itself) propagate"))


def install_small(e):
    # ---- _get_close_args -------------------------------------------------------------------------
    from .abnf import abnf_shape

    def gca_case(c):
        app = mk_app(c, sock="none")
        return dict(self=app, close_frame=c.fresh(("opt", abnf_shape("bytes")), "close_frame"))

    def gca_expect(c, a, view=None):
        """(has_args: Bool, code: Int, reason bytes term) per the statement: code/reason of the close frame, else (None, None)."""
        v = view or c
        app, fr = a["self"], a["close_frame"]
        F_ = unopt(fr)
        if F_ is None:
            return z3.BoolVal(False), z3.IntVal(0), smt.empty
        d = z(v.getf(F_, "data"))
        has = z3.And(z3.Not(zn(v.getf(app, "on_close"))), z3.Not(zn(fr)), slen(d) >= 2)
        return has, at(d, 0) * 256 + at(d, 1), slc(d, 2, slen(d))

    def gca_post(c, old, a, res):
        has, code, reason = gca_expect(c, a, old)
        items = c.cell(res).data
        rc, rr = items[0], items[1]
        return z3.And(z3.BoolVal(len(items) == 2),
                      z3.Implies(z3.Not(has), z3.And(zn(rc), zn(rr))),
                      z3.Implies(has, z3.And(z3.Not(zn(rc)), z3.Not(zn(rr)),
                                             (z(unopt(rc), "int") == code) if unopt(rc) is not None else z3.BoolVal(False),
                                             z3.Implies(smt.wf_utf8(reason), z(unopt(rr)) == smt.utf8_dec(reason))
                                             if unopt(rr) is not None and tag_of(unopt(rr)) == "str" else z3.BoolVal(False))))

    def gca_bad_reason(c, old, a):
        has, code, reason = gca_expect(c, a, old)
        return z3.And(has, z3.Not(smt.wf_utf8(reason)))
    e.add(Contract(P + "WebSocketApp._get_close_args", cases=[("any", gca_case)], ensures=gca_post,
                   result=lambda c, a: c.alloc("list", None, [c.fresh(("opt", "int"), "close_code"), c.fresh(("opt", "str"), "close_reason")]),
                   props=("C14", "C17"),
                   doc="[256*d0+d1, utf8(d[2:])] when on_close is set and the frame has a body of at least two bytes, else [None, None]; "
                       "the decode can only fail for a close reason that is not well-formed UTF-8 (possible only with validation off)"))

    # ---- closure check() (C16) -----------------------------------------------------------------------
    def check_case(c):
        app = mk_app(c, sock="none")
        return {"$closure": {"self": app}}

    def check_cond(c, app, now, view=None):
        v = view or c
        T_ = v.getf(app, "ping_timeout")
        Tv = unopt(T_)
        if Tv is None:
            return z3.BoolVal(False)
        T = z(Tv, "real")
        p, q = z(v.getf(app, "last_ping_tm"), "real"), z(v.getf(app, "last_pong_tm"), "real")
        return z3.And(z3.Not(zn(T_)), T != 0, p != 0, now - p > T, z3.Or(q - p < 0, q - p > T))

    def check_post(c, old, a, res):
        app = _app_of(a)
        now = z(c.ghost["clock"], "real")
        return z3.And(z3.BoolVal(res is True), z3.Not(check_cond(c, app, now, old)))

    def check_raise(c, old, a, exc):
        app = _app_of(a)
        return check_cond(c, app, z(c.ghost["clock"], "real"), old)
    e.add(Contract(P + RF + "check", cases=[("any", check_case)], ensures=check_post, result=lambda c, a: True,
                   raises=[(X.WebSocketTimeoutException, None, check_raise)],
                   havoc=lambda c, a, old, k: c.ghost.__setitem__("clock", c.fresh("real", "clock")),
                   modifies=lambda c, a: ["ghost:clock"], props=("C16",),
                   doc="raises WebSocketTimeoutException('ping/pong timed out') exactly when ping_timeout is set, a ping is outstanding "
                       "(last_ping_tm != 0), now - last_ping_tm > T and the last pong is older than that ping or later than T after it; "
                       "otherwise returns True; modifies nothing"))


def _app_of(a):
    cl = a["$closure"]
    return cl["self"] if isinstance(cl, dict) else cl.locals["self"]


def env_of_(a):
    cl = a["$closure"]
    return cl if isinstance(cl, dict) else cl.locals


def sibling(e, name, env):
    """Closure value for a nested function of run_forever (so that calls dispatch to its contract or inline it)."""
    idx = e.index(app_mod)
    node = idx.find("WebSocketApp.run_forever.<locals>." + name)
    fr = Frame("WebSocketApp.run_forever", app_mod, env, None, None)
    return Closure(node, fr, "WebSocketApp.run_forever.<locals>." + name)


def rf_env(c, e, app, **over):
    """Free variables of the closures of run_forever."""
    env = {"self": app}
    env.update(custom_dispatcher=over.pop("custom_dispatcher", False), reconnect=over.pop("reconnect", 0),
               skip_utf8_validation=over.pop("skip_utf8_validation", c.fresh("bool", "skip_opt")),
               dispatcher=over.pop("dispatcher", None))
    env.update(over)
    for n in ("teardown", "read", "check", "closed", "handleDisconnect", "setSock"):
        env.setdefault(n, sibling(e, n, env))
    return env


def install_threads(e):
    # ---- threading primitives (assumed) --------------------------------------------------------
    e.add(Contract("new:threading.Event", assumed=True, result=lambda c, a: c.new_ext("Event")))

    def thread_new(c, a):
        return c.new_ext("Thread", target=a["$kwargs"].get("target"), daemon=False)
    e.add(Contract("new:threading.Thread", assumed=True, result=thread_new))
    e.add(Contract("ext:Event.set", assumed=True, havoc=lambda c, a, old, k: a["self"].attrs.__setitem__("is_set", True)))
    e.add(Contract("ext:Event.wait", assumed=True, result=lambda c, a: c.fresh("bool", "event_set"),
                   havoc=lambda c, a, old, k: None, doc="Event.wait(t): returns True iff the event was set within t seconds"))

    def th_start(c, a, old, k):
        c.ghost["live_ping_threads"] = SV("int", z(c.ghost["live_ping_threads"]) + 1)
    e.add(Contract("ext:Thread.start", assumed=True, havoc=th_start))
    e.add(Contract("ext:Thread.is_alive", assumed=True,
                   result=lambda c, a: SV("bool", z(c.ghost["live_ping_threads"], "int") == 1) if "live_ping_threads" in c.ghost else c.fresh("bool", "alive"),
                   havoc=lambda c, a, old, k: None, doc="is_alive() of the recorded ping thread <=> it is the live one"))

    def th_join(c, a, old, k):
        # assumed: the ping thread leaves its loop once the stop event is set (its loop condition, verified in _send_ping)
        c.ghost["live_ping_threads"] = 0
    e.add(Contract("ext:Thread.join", assumed=True, havoc=th_join,
                   doc="join(3) on the ping thread after its stop event was set: the thread has ended (assumption: no ping send blocks > 3 s)"))

    def ghost_threads(c):
        if "live_ping_threads" not in c.ghost:
            c.ghost["live_ping_threads"] = c.fresh("int", "live_ping_threads")
    e.ghost_threads = ghost_threads

    # ---- _stop_ping_thread / _start_ping_thread ---------------------------------------------------
    def spt_case(c):
        app = mk_app(c, sock="none")
        ghost_threads(c)
        return dict(self=app)

    def thread_inv(c, app, view=None):
        """a live ping thread is the one recorded in app.ping_thread, with its stop event in app.stop_ping."""
        v = view or c
        n = z(v.ghost["live_ping_threads"], "int")
        return z3.And(n >= 0, n <= 1, z3.Implies(n == 1, z3.And(z3.Not(zn(v.getf(app, "ping_thread"))), z3.Not(zn(v.getf(app, "stop_ping"))))))
    e.thread_inv = thread_inv

    def spt_post(c, old, a, res):
        app = a["self"]
        return z3.And(z(c.getf(app, "last_ping_tm"), "real") == 0, z(c.getf(app, "last_pong_tm"), "real") == 0,
                      z(c.ghost["live_ping_threads"], "int") == 0, thread_inv(c, app))

    def spt_havoc(c, a, old, k):
        app = a["self"]
        c.setf(app, "last_ping_tm", 0.0)
        c.setf(app, "last_pong_tm", 0.0)
        c.ghost["live_ping_threads"] = 0
    e.add(Contract(P + "WebSocketApp._stop_ping_thread", cases=[("any", spt_case)], requires=lambda c, a: thread_inv(c, a["self"]),
                   ensures=spt_post, havoc=spt_havoc,
                   modifies=lambda c, a: [(a["self"], "last_ping_tm"), (a["self"], "last_pong_tm"), "ghost:live_ping_threads"],
                   props=("C14", "C15", "C16"), doc="sets the stop event, joins the thread (3 s bound), resets both liveness stamps to 0"))

    def stpt_case(c):
        # the object may carry the stop event of an earlier connection, already set by _stop_ping_thread
        app = mk_app(c, sock="none")
        ghost_threads(c)
        c.setf(app, "stop_ping", OptV(smt.fresh(smt.Bool, "stop_ping.isnone"), c.new_ext("Event", is_set=c.fresh("bool", "old_event_set"))))
        return dict(self=app)

    def event_unset(c, app):
        ev = unopt(c.getf(app, "stop_ping"))
        if not isinstance(ev, Ext):
            return z3.BoolVal(False)
        st = ev.attrs.get("is_set", False)
        return z3.BoolVal(not st) if isinstance(st, bool) else z3.Not(z(st, "bool"))

    def stpt_post(c, old, a, res):
        app = a["self"]
        if c.mode != "assume":
            # the new thread's stop event is not set when the thread starts (else it would end at once: no pings)
            return z3.And(stpt_post_base(c, old, a, res), event_unset(c, app))
        return stpt_post_base(c, old, a, res)

    def stpt_post_base(c, old, a, res):
        app = a["self"]
        return z3.And(z(c.getf(app, "last_ping_tm"), "real") == 0, z(c.getf(app, "last_pong_tm"), "real") == 0,
                      z(c.ghost["live_ping_threads"], "int") == z(old.ghost["live_ping_threads"], "int") + 1,
                      z3.Not(zn(c.getf(app, "ping_thread"))), z3.Not(zn(c.getf(app, "stop_ping"))))

    def stpt_havoc(c, a, old, k):
        app = a["self"]
        c.setf(app, "last_ping_tm", 0.0)
        c.setf(app, "last_pong_tm", 0.0)
        c.setf(app, "stop_ping", c.new_ext("Event"))
        c.setf(app, "ping_thread", c.new_ext("Thread"))
        c.ghost["live_ping_threads"] = SV("int", z(old.ghost["live_ping_threads"], "int") + 1)
    e.add(Contract(P + "WebSocketApp._start_ping_thread", cases=[("any", stpt_case)], ensures=stpt_post, havoc=stpt_havoc,
                   modifies=lambda c, a: [(a["self"], f) for f in ("last_ping_tm", "last_pong_tm", "stop_ping", "ping_thread")] + ["ghost:live_ping_threads"],
                   props=("C15", "C16"), doc="resets the liveness stamps, creates a fresh stop event and starts exactly one daemon thread"))


def has_transport(c, app, view=None):
    v = view or c
    s_ = v.getf(app, "sock")
    ws = unopt(s_)
    if ws is None:
        return z3.BoolVal(False)
    return z3.And(z3.Not(zn(s_)), z3.Not(zn(v.getf(ws, "sock"))))


def LIVE(c, app, view=None):
    """exactly the app's current transport (if any) is open: opened_handles - closed_handles = 1 or 0 accordingly."""
    v = view or c
    return z(v.ghost["opened_handles"]) - z(v.ghost["closed_handles"]) == z3.If(has_transport(c, app, view), 1, 0)


def APPINV(c, app, view=None):
    """App-level invariant used by the closures: the WebSocket (if any) is consistent, at most one live transport (the app's own)
    and the ping-thread bookkeeping holds."""
    e_thread = APPINV.thread_inv
    v = view or c
    return z3.And(app_ws_inv(c, app, view), e_thread(c, app, view), LIVE(c, app, view),
                  z3.Implies(z(v.getf(app, "has_done_teardown"), "bool"), z3.Not(z(v.getf(app, "keep_running"), "bool"))))


def install_teardown(e):
    APPINV.thread_inv = e.thread_inv
    from .abnf import abnf_shape

    # ---- teardown(close_frame=None) ----------------------------------------------------------------
    def td_case(c):
        app = mk_app(c, sock="opt")
        e.ghost_threads(c)
        env = rf_env(c, e, app)
        return {"$closure": env, "close_frame": c.fresh(("opt", abnf_shape("bytes")), "close_frame")}

    def td_app(a):
        return _app_of(a)

    def td_expect(c, old, a):
        app = td_app(a)
        fr = a["close_frame"]
        F_ = unopt(fr)
        if F_ is None:
            return z3.BoolVal(False), None, None
        d = z(old.getf(F_, "data"))
        has = z3.And(z3.Not(zn(old.getf(app, "on_close"))), z3.Not(zn(fr)), slen(d) >= 2)
        return has, at(d, 0) * 256 + at(d, 1), slc(d, 2, slen(d))

    def on_close_event(c, old, a):
        app = td_app(a)
        oc = old.getf(app, "on_close")
        has, code, reason = td_expect(c, old, a)
        ext = unopt(oc)
        if ext is None:
            return None
        none_ev = mk_event(ext.id, (None, None))
        if code is None:
            return none_ev
        full = mk_event(ext.id, (SV("int", code), SV("str", smt.utf8_dec(reason))))
        return z3.If(has, full, none_ev)

    def td_done(c, app):
        return z3.And(z(c.getf(app, "has_done_teardown"), "bool"), z3.Not(z(c.getf(app, "keep_running"), "bool")), zn(c.getf(app, "sock")))

    def td_post(c, old, a, res):
        app = td_app(a)
        done0 = z(old.getf(app, "has_done_teardown"), "bool")
        dl0, dl1 = z(old.ghost["dl"]), z(c.ghost["dl"])
        ev = on_close_event(c, old, a)
        oc = old.getf(app, "on_close")
        has, code, reason = td_expect(c, old, a)
        if ev is None:
            dl_ok = dl1 == dl0
        else:
            lossy = z3.And(has, z3.Not(smt.wf_utf8(reason))) if code is not None else z3.BoolVal(False)
            last = Log.last(dl1)
            dl_ok = z3.If(zn(oc), dl1 == dl0,
                          z3.If(lossy, z3.And(Log.is_snoc(dl1), Log.init(dl1) == dl0, Event.cb(last) == unopt(oc).id,
                                              Event.k0(last) == K_INT, Event.i0(last) == (code if code is not None else 0), Event.k1(last) == K_STR),
                                dl1 == Log.snoc(dl0, ev)))
        return z3.And(
            z3.Implies(done0, z3.And(dl1 == dl0, z(c.getf(app, "keep_running"), "bool") == z(old.getf(app, "keep_running"), "bool"),
                                     z(c.ghost["teardowns"]) == z(old.ghost["teardowns"]), z(c.ghost["D"]) == z(old.ghost["D"]))),
            z3.Implies(z3.Not(done0), z(c.ghost["D"]) == 0),
            z3.Implies(z3.Not(done0), td_done(c, app)),
            z3.Implies(z3.Not(done0), dl_ok),
            z3.Implies(z3.Not(done0), z3.And(z(c.ghost["teardowns"]) == z(old.ghost["teardowns"]) + 1,
                                             z(c.ghost["live_ping_threads"], "int") == 0)),
            z(c.getf(app, "has_errored"), "bool") == z(old.getf(app, "has_errored"), "bool"), APPINV(c, app))

    def td_exc(c, old, a, exc):
        # the on_close callback (last action) raised: teardown has nevertheless completed
        app = td_app(a)
        return z3.And(z3.Not(z(old.getf(app, "has_done_teardown"), "bool")), td_done(c, app),
                      z(c.getf(app, "has_errored"), "bool") == z(old.getf(app, "has_errored"), "bool"), APPINV(c, app),
                      z(c.ghost["live_ping_threads"], "int") == 0, z(c.ghost["D"]) == 0,
                      z(c.ghost["teardowns"]) == z(old.ghost["teardowns"]) + 1)

    def td_entry(c, a):
        pass

    def td_after_flag(c, fr, r):
        pass


    def td_havoc(c, a, old, k):
        app = td_app(a)
        for g in TD_GH:
            if g in c.ghost:
                v = c.ghost[g]
                c.ghost[g] = SV("log", smt.fresh(Log, g)) if g in ("dl", "raw") else c.havoc_like(v, g) if isinstance(v, SV) else c.fresh("int", g)
        done0 = old.getf(app, "has_done_teardown")
        if c.branch(z(done0, "bool")):
            c.ghost.update({g: old.ghost[g] for g in TD_GH if g in old.ghost})
            return
        c.setf(app, "has_done_teardown", True)
        c.setf(app, "keep_running", False)
        c.setf(app, "sock", None)
        c.setf(app, "last_ping_tm", 0.0)
        c.setf(app, "last_pong_tm", 0.0)

    def td_mods(c, a):
        app = td_app(a)
        m = [(app, f) for f in ("has_done_teardown", "keep_running", "sock", "last_ping_tm", "last_pong_tm")] + ["ghost:" + g for g in TD_GH]
        for ws in cur_ws(c, app):
            fb = c.getf(ws, "frame_buffer")
            m += [(ws, "sock"), (ws, "connected")] + [(fb, f) for f in ("recv_buffer", "header", "length", "mask_value")]
        return m

    def after_flag_set(c, fr, r):
        pass
    # ghost statement: the teardown counter is bumped where the once-only flag is set
    def td_ghost_exit(c, fr, r):
        pass
    e.add(Contract(P + RF + "teardown", cases=[("any", td_case)],
                   requires=lambda c, a: APPINV(c, td_app(a)),
                   ensures=td_post, havoc=td_havoc, modifies=td_mods,
                   raises=[(KeyboardInterrupt, None, td_exc), (SystemExit, None, td_exc),
                           (Exception, lambda c, old, a: z3.Not(zn(old.getf(td_app(a), "on_error"))), td_exc)],
                   props=("C14", "C15"),
                   doc="once only (flag under its lock): stops the ping thread, keep_running' = False, closes and drops the socket, then calls "
                       "on_close exactly once and last, with (code, reason) of the close frame given, else (None, None); has_errored unchanged"))
    def td_ghost(c, fr, r):
        if "teardowns" in c.ghost:
            c.ghost["teardowns"] = SV("int", z(c.ghost["teardowns"]) + 1)
            app = fr.parent.locals["self"] if fr.parent is not None else None
            if app is not None:
                c.ghost["D"] = SV("int", z3.If(zn(c.getf(app, "on_close")), 0, -1))
    e.after_call[("WebSocketApp.run_forever.<locals>.teardown", "_stop_ping_thread")] = td_ghost


def install_loop(e):
    """handleDisconnect, read, setSock, run_forever and the dispatchers (C13, C14, C15, C16)."""
    import websocket._dispatcher as disp_mod
    import websocket._socket as sock_mod
    K = "websocket._core:"
    D = "websocket._dispatcher:"
    td = e.contracts[P + RF + "teardown"]

    def app_of(a):
        cl = a["$closure"]
        return cl["self"] if isinstance(cl, dict) else cl.locals["self"]

    def env_of(a):
        cl = a["$closure"]
        return cl if isinstance(cl, dict) else cl.locals

    def ghost_run(c):
        g = c.ghost
        for n in ("attempts", "opened_handles", "resched", "reads_started"):
            if n not in g:
                g[n] = c.fresh("int", n)
        e.ghost_threads(c)

    from pyvc.values import SymSeq

    def stack_res(c, a):
        n = c.fresh("int", "stack_depth")
        c.assume(n.t >= 1)
        return SymSeq(n, lambda c, i: None, "stack")
    e.add(Contract("inspect:stack", assumed=True, result=stack_res, havoc=lambda c, a, old, k: None, doc="inspect.stack(): only its length is used (log text)"))

    # ---- time.sleep ------------------------------------------------------------------------------
    def sleep_havoc(c, a, old, k):
        s = a["$args"][0]
        t = c.fresh("real", "clock")
        c.assume(t.t >= z(old.ghost["clock"], "real") + z(s, "real"))
        c.ghost["clock"] = t
    e.add(Contract("time:sleep", assumed=True, havoc=sleep_havoc, raises=[(KeyboardInterrupt, None, None)],
                   doc="time.sleep(s): the clock advances by at least s (or KeyboardInterrupt)"))

    # ---- WebSocket.connect as seen by the app (its own verification: C09) --------------------------
    def conn_havoc(c, a, old, k):
        ws = a["self"]
        c.ghost["attempts"] = SV("int", z(c.ghost["attempts"]) + 1)
        c.ghost["last_attempt_clock"] = c.ghost["clock"]
        fb, cf = c.getf(ws, "frame_buffer"), c.getf(ws, "cont_frame")
        if k == 0:
            # a new connection: fresh ghost stream, positioned right after the handshake response
            for g, tg in (("rx", "bytes"), ("rpos", "int"), ("wire", "bytes"), ("rx_calls", "int"), ("tx_calls", "int")):
                c.ghost[g] = c.fresh(tg, g)
            c.assume(z3.And(z(c.ghost["rpos"]) >= 0, z(c.ghost["rpos"]) <= slen(z(c.ghost["rx"])), slen(z(c.ghost["rx"])) < 2 ** 63))
            c.ghost["fstart"] = c.ghost["rpos"]
            c.ghost["auto_close"] = 0
            c.ghost["m_open"] = False
            c.setf(ws, "sock", c.new_ext("sock"))
            c.setf(ws, "connected", True)
            c.ghost["opened_handles"] = SV("int", z(c.ghost["opened_handles"]) + 1)
        else:
            c.ghost["fstart"] = c.ghost["rpos"]
            c.ghost["auto_close"] = 0
            c.ghost["m_open"] = False
            c.setf(ws, "sock", None)
            c.setf(ws, "connected", False)
    e.add(Contract(K + "WebSocket.connect", cases=[], havoc=conn_havoc,
                   raises=[(X.WebSocketException, None, None), (OSError, None, None), (ValueError, None, None)],
                   modifies=lambda c, a: [a["self"]], props=("C09",),
                   doc="normal: connected with a transport, parser positioned at the first byte after the handshake response; "
                       "failure: raises with sock = None and connected = False (verified under C09)"))
    def settimeout_havoc(c, a, old, k):
        # settimeout(t): remembered in sock_opt.timeout (used for the connection set-up and the handshake) and applied to an open socket
        ws = a["self"]
        t = a.get("timeout", (a.get("$args") or [None])[0])
        if isinstance(ws, Ref) and c.hasf(ws, "sock_opt") and isinstance(c.getf(ws, "sock_opt"), Ref):
            c.setf(c.getf(ws, "sock_opt"), "timeout", t)
    e.add(Contract(K + "WebSocket.settimeout", cases=[], havoc=settimeout_havoc, assumed=True))
    e.add(Contract("websocket._socket:getdefaulttimeout", cases=[], result=lambda c, a: c.fresh(("opt", "real"), "deftimeout"), assumed=True))

    # ---- handleDisconnect(e, reconnecting) ------------------------------------------------------------
    EXC_KINDS = [X.WebSocketConnectionClosedException, ConnectionRefusedError, X.WebSocketTimeoutException, KeyboardInterrupt, SystemExit]

    def hd_case(reconnect, custom):
        def case(c):
            app = mk_app(c, sock="opt")
            ghost_run(c)
            disp = c.alloc("obj", disp_mod.WrappedDispatcher if custom else disp_mod.Dispatcher,
                           dict(app=app, ping_timeout=c.fresh(("opt", "real"), "pt"), dispatcher=c.new_ext("rel"), handleDisconnect=None))
            env = rf_env(c, e, app, custom_dispatcher=custom, dispatcher=disp,
                         reconnect=(c.fresh("int", "reconnect") if reconnect else 0))
            if reconnect:
                c.assume(z(env["reconnect"]) > 0)
            ex = ExcVal(EXC_KINDS[c.choose(len(EXC_KINDS))], ("boom",))
            c.handled.append(ex)
            return {"$closure": env, "e": ex, "reconnecting": c.fresh("bool", "reconnecting")}
        return case

    def hd_common(c, old, a):
        app = app_of(a)
        oe = old.getf(app, "on_error")
        dl0 = z(old.ghost["dl"])
        return app, oe, dl0

    def dl_after_error(c, old, a):
        app, oe, dl0 = hd_common(c, old, a)
        ext = unopt(oe)
        if ext is None:
            return dl0
        return z3.If(z3.Or(z(a["reconnecting"], "bool"), zn(oe)), dl0, Log.snoc(dl0, mk_event(ext.id, (a["e"],))))

    def is_interrupt(a):
        return isinstance(a["e"], ExcVal) and issubclass(a["e"].cls, (KeyboardInterrupt, SystemExit))

    INTERNAL_ERRORS = (AttributeError, TypeError, NameError, LookupError, AssertionError, UnboundLocalError)

    def hd_req(c, a):
        # what is handed over as the reason of a disconnect is an error of the connection or of a callback, never an internal
        # error of the library's own code (e.g. an attribute of None): those would be reported to on_error and turn the return
        # value of a run that simply ended into True (C14)
        ex = a.get("e")
        internal = isinstance(ex, ExcVal) and issubclass(ex.cls, INTERNAL_ERRORS) and getattr(ex, "internal", True)
        return z3.And(APPINV(c, app_of(a)), z3.BoolVal(not internal))

    def hd_post(c, old, a, res):
        app = app_of(a)
        env = env_of(a)
        rec = env["reconnect"]
        base = z3.And(z(c.getf(app, "has_errored"), "bool"), z3.BoolVal(res is None), z3.BoolVal(not is_interrupt(a)), APPINV(c, app),
                      D_OK(c, old, app),
                      z(c.ghost["live_ping_threads"], "int") == 0)
        dl_err = dl_after_error(c, old, a)
        if isinstance(rec, int) and rec == 0:
            # no reconnect configured: report, then tear down (on_close last)
            done0 = z(old.getf(app, "has_done_teardown"), "bool")
            oc = old.getf(app, "on_close")
            exp = dl_err if unopt(oc) is None else z3.If(z3.Or(done0, zn(oc)), dl_err, Log.snoc(dl_err, mk_event(unopt(oc).id, (None, None))))
            return z3.And(base, z(c.ghost["dl"]) == exp, z(c.getf(app, "has_done_teardown"), "bool"),
                          z(c.ghost["resched"]) == z(old.ghost["resched"]),
                          # teardown ran here unless it had run before: counted once, and it dropped the socket
                          z(c.ghost["teardowns"]) == z(old.ghost["teardowns"]) + z3.If(done0, 0, 1),
                          z3.Implies(z3.Not(done0), zn(c.getf(app, "sock"))))
        # reconnect configured: no teardown, no on_close; an external dispatcher is asked for exactly one later attempt
        custom = env["custom_dispatcher"]
        if custom and c.mode != "assume":
            # what the external dispatcher was asked to run later: setSock(reconnecting=True) - the re-established connection
            # fires on_reconnect, the previous socket is shut down first and a failed attempt is not reported as a fresh error
            call = c.ghost.get("$resched_call")
            is_true = lambda v: v is True or (isinstance(v, SV) and z3.is_true(z3.simplify(z(v, "bool"))))
            ok = call is not None and len(call) == 2 and call[0] is env["setSock"] and is_true(call[1])
            base = z3.And(base, z3.BoolVal(bool(ok)))
        return z3.And(base, z(c.ghost["dl"]) == dl_err, z(c.ghost["teardowns"]) == z(old.ghost["teardowns"]),
                      z(c.getf(app, "has_done_teardown"), "bool") == z(old.getf(app, "has_done_teardown"), "bool"),
                      z(c.ghost["resched"]) == z(old.ghost["resched"]) + (1 if custom else 0))

    def hd_interrupt(c, old, a, exc):
        # either the error being handled is itself an interrupt (then teardown ran first), or a callback raised one
        app = app_of(a)
        return z3.And(z(c.getf(app, "has_errored"), "bool"), APPINV(c, app), z(c.ghost["live_ping_threads"], "int") == 0, D_OK(c, old, app),
                      z3.Implies(z3.And(z3.BoolVal(is_interrupt(a)), zn(old.getf(app, "on_error"))), z(c.getf(app, "has_done_teardown"), "bool")))

    def hd_cb_exc(c, old, a, exc):
        return z3.And(z(c.getf(app_of(a), "has_errored"), "bool"), APPINV(c, app_of(a)), z(c.ghost["live_ping_threads"], "int") == 0,
                      D_OK(c, old, app_of(a)))

    def hd_havoc(c, a, old, k):
        app = app_of(a)
        td.havoc(c, dict(a, close_frame=None), old, 0) if False else None
        c.setf(app, "has_errored", True)
        c.ghost["D"] = c.fresh("int", "D")
        for g in ("dl", "raw"):
            c.ghost[g] = SV("log", smt.fresh(Log, g))
        for g in ("teardowns", "resched", "closed_handles"):
            if g in c.ghost:
                c.ghost[g] = c.fresh("int", g)
        c.ghost["live_ping_threads"] = 0
        c.setf(app, "last_ping_tm", 0.0)
        c.setf(app, "last_pong_tm", 0.0)
        c.setf(app, "has_done_teardown", c.fresh("bool", "has_done_teardown"))
        c.setf(app, "keep_running", c.fresh("bool", "keep_running"))
        havoc_sock(c, app, old)

    def resched_havoc(c, a, old, k):
        c.ghost["resched"] = SV("int", z(c.ghost["resched"]) + 1)
        c.ghost["resched_delay"] = a["$args"][0]
        c.ghost["$resched_call"] = tuple(a["$args"][1:])
    e.add(Contract("ext:rel.read", assumed=True, havoc=lambda c, a, old, k: None,
                   doc="external dispatcher read(sock, callback): registers the read callback; returns at once"))
    e.add(Contract("ext:rel.timeout", assumed=True, havoc=resched_havoc,
                   doc="external dispatcher timeout(seconds, callback, *args): schedules callback(*args) after `seconds` (one more scheduled attempt)"))
    e.add(Contract(P + RF + "handleDisconnect",
                   cases=[(f"reconnect={'on' if r else 'off'},{'external' if cu else 'builtin'}-dispatcher", hd_case(r, cu))
                          for r in (False, True) for cu in (False, True)],
                   requires=hd_req, ensures=hd_post, havoc=hd_havoc,
                   normal_when=lambda c, old, a: z3.BoolVal(not is_interrupt(a)),
                   raises=[(KeyboardInterrupt, lambda c, old, a: z3.BoolVal(True), hd_interrupt), (SystemExit, None, hd_interrupt),
                           (Exception, lambda c, old, a: z3.Not(zn(old.getf(app_of(a), "on_error"))), hd_cb_exc)],
                   modifies=lambda c, a: td.modifies(c, dict(a, close_frame=None)) + [(app_of(a), "has_errored"), "ghost:resched", "ghost:resched_delay"],
                   props=("C14", "C15"),
                   doc="has_errored' = True, ping thread stopped; the error goes to on_error once unless this was a reconnect attempt; "
                       "KeyboardInterrupt/SystemExit: teardown, then re-raised; reconnect interval set: no teardown and no on_close - an external "
                       "dispatcher is asked for exactly one later attempt, the built-in loop makes it itself; no interval: teardown (on_close last)"))


def install_read(e):
    import websocket._dispatcher as disp_mod
    K = "websocket._core:"
    td = e.contracts[P + RF + "teardown"]
    rdf = e.contracts[K + "WebSocket.recv_data_frame"]
    import ssl as _ssl

    def app_of(a):
        cl = a["$closure"]
        return cl["self"] if isinstance(cl, dict) else cl.locals["self"]

    def env_of(a):
        cl = a["$closure"]
        return cl if isinstance(cl, dict) else cl.locals

    def read_case(cont, custom):
        def case(c):
            skip = c.fresh("bool", "skip_opt")
            app = mk_app(c, sock="opt", cont=cont)
            for n in ("attempts", "opened_handles", "resched"):
                c.ghost.setdefault(n, c.fresh("int", n))
            e.ghost_threads(c)
            c.ghost["pong_acc"] = SV("bytes", smt.empty)
            c.ghost["npings"] = 0
            ws = app_ws[app.id]
            c.setf(c.getf(ws, "cont_frame"), "skip_utf8_validation", skip)
            c.setf(c.getf(ws, "frame_buffer"), "skip_utf8_validation", skip)
            disp = c.alloc("obj", disp_mod.WrappedDispatcher if custom else disp_mod.Dispatcher,
                           dict(app=app, ping_timeout=None, dispatcher=c.new_ext("rel"), handleDisconnect=None))
            env = rf_env(c, e, app, custom_dispatcher=custom, dispatcher=disp, reconnect=0, skip_utf8_validation=skip)
            return {"$closure": env}
        return case

    def read_req(c, a):
        app = app_of(a)
        return z3.And(APPINV(c, app), z3.Implies(z(c.getf(app, "keep_running"), "bool"), z3.Not(zn(c.getf(app, "sock")))))

    def read_post(c, old, a, res):
        app, env = app_of(a), env_of(a)
        ws = unopt(old.getf(app, "sock"))
        kr0 = z(old.getf(app, "keep_running"), "bool")
        if ws is None:
            return z3.BoolVal(res is None)
        dl0, dl1 = z(old.ghost["dl"]), z(c.ghost["dl"])
        cf = old.getf(ws, "cont_frame")
        fire = old.getf(cf, "fire_cont_frame")
        skip = z(env["skip_utf8_validation"], "bool")
        d = spec.Dec(z(c.ghost["rx"]), z(c.ghost["lastf"]))
        mop, md = z(c.ghost["m_op"]), z(c.ghost["m_data"])
        isdata = z3.Or(d.opcode == 0, d.opcode == 1, d.opcode == 2)
        G = lambda n: old.getf(app, n)
        B = lambda t: SV("bytes", t)
        if res is None:
            # ended: not running any more, or the server's close frame: teardown with that frame (has_errored untouched);
            # with an external dispatcher a lost connection also ends here, through closed(e) -> handleDisconnect
            if env["custom_dispatcher"]:
                return z3.And(APPINV(c, app), z3.Or(z(c.getf(app, "has_done_teardown"), "bool"), z(c.getf(app, "has_errored"), "bool")))
            return z3.And(z(c.getf(app, "has_done_teardown"), "bool"), APPINV(c, app), D_OK(c, old, app),
                          z(c.getf(app, "has_errored"), "bool") == z(old.getf(app, "has_errored"), "bool"))
        # one event handed to the callbacks, exactly once, in order
        if fire is True:
            op_ret, pay = d.opcode, d.payload
            text = z3.And(op_ret == 1, z3.Not(skip))
            contcb = z3.And(op_ret == 0, z3.Not(zn(G("on_cont_message"))))
            as_str = SV("str", smt.utf8_dec(pay))
            msg_dl = z3.If(contcb,
                           log_append(log_append(dl0, G("on_data"), (B(pay), SV("int", d.opcode), SV("int", d.fin))), G("on_cont_message"), (B(pay), SV("int", d.fin))),
                           z3.If(text, log_append(log_append(dl0, G("on_data"), (as_str, SV("int", op_ret), True)), G("on_message"), (as_str,)),
                                 log_append(log_append(dl0, G("on_data"), (B(pay), SV("int", op_ret), True)), G("on_message"), (B(pay),))))
        else:
            op_ret, pay = mop, md
            text = z3.And(op_ret == 1, z3.Not(skip))
            as_str = SV("str", smt.utf8_dec(pay))
            msg_dl = z3.If(text, log_append(log_append(dl0, G("on_data"), (as_str, SV("int", op_ret), True)), G("on_message"), (as_str,)),
                           log_append(log_append(dl0, G("on_data"), (B(pay), SV("int", op_ret), True)), G("on_message"), (B(pay),)))
        return z3.And(z3.BoolVal(res is True), kr0, APPINV(c, app), D_OK(c, old, app),
                      z3.Implies(z(c.getf(app, "keep_running"), "bool"), z3.Not(zn(c.getf(app, "sock")))),
                      z3.Implies(isdata, dl1 == msg_dl),
                      z3.Implies(d.opcode == 9, dl1 == log_append(dl0, G("on_ping"), (B(d.payload),))),
                      z3.Implies(d.opcode == 10, z3.And(dl1 == log_append(dl0, G("on_pong"), (B(d.payload),)),
                                                        z(c.getf(app, "last_pong_tm"), "real") == z(c.ghost["clock"], "real"))),
                      d.opcode != 8, z3.Or(isdata, d.opcode == 9, d.opcode == 10),
                      z(c.getf(app, "has_errored"), "bool") == z(old.getf(app, "has_errored"), "bool"),
                      z(c.getf(app, "has_done_teardown"), "bool") == z(old.getf(app, "has_done_teardown"), "bool"))

    def read_exc(c, old, a, exc):
        return z3.And(APPINV(c, app_of(a)), D_OK(c, old, app_of(a)))

    def read_havoc(c, a, old, k):
        app = app_of(a)
        for ws in cur_ws(c, app)[:1]:
            rdf.havoc(c, dict(self=ws, control_frame=True), old, 0 if k == 0 else 3)
        for g in TD_GH:  # everything teardown may write (it ran only on the paths the post-condition says)
            if g in c.ghost:
                v = c.ghost[g]
                c.ghost[g] = SV("log", smt.fresh(Log, g)) if g in ("dl", "raw") else c.havoc_like(v, g) if isinstance(v, SV) else c.fresh("int", g)
        havoc_sock(c, app, old)
        # what teardown may have changed is unknown here (it ran only on the paths the post-condition says)
        for f, sh in (("has_done_teardown", "bool"), ("keep_running", "bool"), ("last_ping_tm", "real")):
            c.setf(app, f, c.fresh(sh, f))
        c.setf(app, "last_pong_tm", c.fresh("real", "last_pong_tm"))
        c.ghost["clock"] = c.fresh("real", "clock")

    def read_mods(c, a):
        app = app_of(a)
        m = td.modifies(c, dict(a, close_frame=None)) + [(app, "last_pong_tm"), "ghost:clock", "ghost:resched", "ghost:resched_delay"]
        if env_of(a)["custom_dispatcher"]:
            m += [(app, "has_errored"), "ghost:attempts", "ghost:opened_handles"]
        for ws in cur_ws(c, app):
            m += rdf.modifies(c, dict(self=ws))
        return m
    PROP_EXC = [X.WebSocketConnectionClosedException, X.WebSocketProtocolException, X.WebSocketPayloadException, X.WebSocketTimeoutException,
                OSError, KeyboardInterrupt, SystemExit]
    e.add(Contract(P + RF + "read",
                   cases=[(f"{'per-fragment' if co else 'messages'},{'external' if cu else 'builtin'}-dispatcher", read_case(co, cu))
                          for co in (False, True) for cu in (False, True)],
                   requires=read_req, ensures=read_post, havoc=read_havoc, modifies=read_mods,
                   result=lambda c, a: True if c.choose(2) == 0 else None,
                   raises=[(cls, None, read_exc) for cls in PROP_EXC] +
                          [(Exception, lambda c, old, a: z3.Not(zn(old.getf(app_of(a), "on_error"))), read_exc)],
                   props=("C13", "C14", "C16", "C17"),
                   doc="one readiness event: exactly one frame-level event is routed - a complete message to on_data(payload, message type, True) then "
                       "on_message(payload) (text decoded to str), a ping to on_ping, a pong to on_pong (and last_pong_tm' = now), each exactly once and "
                       "in this order, returning True also when a callback raised; the server's close frame goes to teardown(frame) without touching "
                       "has_errored; only documented exception classes (or what a callback raised through on_error) escape"))


def install_run(e):
    """Dispatchers, setSock, run_forever (C13-C16)."""
    import websocket._dispatcher as disp_mod
    D = "websocket._dispatcher:"
    K = "websocket._core:"
    td = e.contracts[P + RF + "teardown"]
    rd = e.contracts[P + RF + "read"]
    hd = e.contracts[P + RF + "handleDisconnect"]

    def app_of(a):
        cl = a["$closure"]
        return cl["self"] if isinstance(cl, dict) else cl.locals["self"]

    def env_of(a):
        cl = a["$closure"]
        return cl if isinstance(cl, dict) else cl.locals

    for n in ("selects", "checks"):
        pass

    def ghost_disp(c):
        for n in ("selects", "checks", "reads"):
            c.ghost.setdefault(n, c.fresh("int", n))

    # ---- selector as used by the dispatchers ------------------------------------------------------
    def sel_select(c, a):
        return c.fresh(("oneof", [("const", ()), ("const", (("key", 1),))]), "ready")
    e.contracts["ext:selector.select"].result = sel_select
    e.add(Contract("ext:sock.pending", assumed=True, result=lambda c, a: c.fresh("int", "pending"), havoc=lambda c, a, old, k: None))

    # ---- Dispatcher.read / SSLDispatcher.read -------------------------------------------------------
    def dr_case(cls):
        def case(c):
            app = mk_app(c, sock="opt")
            ghost_disp(c)
            c.ghost["pong_acc"] = SV("bytes", smt.empty)
            c.ghost["npings"] = 0
            disp = c.alloc("obj", cls, dict(app=app, ping_timeout=c.fresh("real", "select_timeout")))
            env = rf_env(c, e, app, custom_dispatcher=False, dispatcher=disp, reconnect=0)
            return dict(self=disp, sock=None, read_callback=env["read"], check_callback=env["check"])
        return case

    def dr_app(c, a):
        return c.getf(a["self"], "app")

    def dr_req(c, a):
        app = dr_app(c, a)
        return z3.And(APPINV(c, app), has_transport(c, app))

    def dr_inv(c, fr, entry):
        app = c.getf(fr.locals["self"], "app")
        # every return of select() so far was followed by one call of the check callback
        return z3.And(APPINV(c, app), z3.Implies(z(c.getf(app, "keep_running"), "bool"), z3.Not(zn(c.getf(app, "sock")))),
                      D_OK(c, entry, app), z3.Implies(z(entry.getf(app, "has_done_teardown"), "bool"), z(c.getf(app, "has_done_teardown"), "bool")),
                      z(c.ghost["selects"]) - z(entry.ghost["selects"]) == z(c.ghost["checks"]) - z(entry.ghost["checks"]),
                      z(c.ghost["selects"]) - z(entry.ghost["selects"]) >= 0)

    def dr_loop_havoc(c, fr, entry):
        app = c.getf(fr.locals["self"], "app")
        rd.havoc(c, {"$closure": {"self": app}}, entry, 0)
        for n in ("selects", "checks", "reads"):
            c.ghost[n] = c.fresh("int", n)
        c.setf(app, "keep_running", c.fresh("bool", "keep_running"))
        c.setf(app, "has_done_teardown", c.fresh("bool", "has_done_teardown"))
        havoc_sock(c, app, entry)

    def dr_mods(c, a):
        app = dr_app(c, a)
        return rd.modifies(c, {"$closure": {"self": app, "custom_dispatcher": False}}) + ["ghost:selects", "ghost:checks", "ghost:reads"]
    for cls in ("Dispatcher", "SSLDispatcher"):
        e.loop(f"{cls}.read", 0, inv=dr_inv, havoc=dr_loop_havoc, shapes={"r": ("const", None)},
               modifies=lambda c, fr: dr_mods(c, dict(self=fr.locals["self"])))

    def dr_post(c, old, a, res):
        app = dr_app(c, a)
        ds = z(c.ghost["selects"]) - z(old.ghost["selects"])
        dc = z(c.ghost["checks"]) - z(old.ghost["checks"])
        return z3.And(APPINV(c, app), ds - dc >= 0, ds - dc <= 1, z3.Not(z(c.getf(app, "keep_running"), "bool")), D_OK(c, old, app))

    def dr_exc(c, old, a, exc):
        return z3.And(APPINV(c, dr_app(c, a)), D_OK(c, old, dr_app(c, a)))

    def dr_havoc(c, a, old, k):
        app = dr_app(c, a)
        rd.havoc(c, {"$closure": {"self": app}}, old, 0)
        for n in ("selects", "checks", "reads"):
            if n in c.ghost:
                c.ghost[n] = c.fresh("int", n)
        c.setf(app, "keep_running", c.fresh("bool", "keep_running"))
        c.setf(app, "has_done_teardown", c.fresh("bool", "has_done_teardown"))
        havoc_sock(c, app, old)
    DISP_EXC = [X.WebSocketException, OSError, KeyboardInterrupt, SystemExit]
    after_check = lambda c, fr, r: c.ghost.__setitem__("checks", SV("int", z(c.ghost["checks"]) + 1)) if "checks" in c.ghost else None
    for cls in (disp_mod.Dispatcher, disp_mod.SSLDispatcher):
        e.add(Contract(D + cls.__name__ + ".read", cases=[("any", dr_case(cls))], requires=dr_req, ensures=dr_post, havoc=dr_havoc,
                       modifies=dr_mods,
                       raises=[(k_, None, dr_exc) for k_ in DISP_EXC] +
                              [(Exception, lambda c, old, a: z3.Not(zn(old.getf(dr_app(c, a), "on_error"))), dr_exc)],
                       props=("C13", "C16"),
                       doc="select loop: while the app is running, wait for readability (at most the ping timeout; TLS: pending bytes first), "
                           "call the read callback once per readiness and leave when it returns falsy; after every return of select the "
                           "check callback is called once; the selector is always closed"))
        e.after_call[(cls.__name__ + ".read", "check_callback")] = after_check
        e.after_call[(cls.__name__ + ".read", "select")] = \
            lambda c, fr, r: c.ghost.__setitem__("selects", SV("int", z(c.ghost["selects"]) + 1)) if "selects" in c.ghost else None


def install_run2(e):
    """DispatcherBase.reconnect, setSock, run_forever, create_dispatcher, WebSocketApp.close, _send_ping."""
    import websocket._dispatcher as disp_mod
    D = "websocket._dispatcher:"
    K = "websocket._core:"
    td = e.contracts[P + RF + "teardown"]
    rd = e.contracts[P + RF + "read"]
    hd = e.contracts[P + RF + "handleDisconnect"]
    drd = e.contracts[D + "Dispatcher.read"]
    app_of, env_of = _app_of, lambda a: (a["$closure"] if isinstance(a["$closure"], dict) else a["$closure"].locals)
    SS_GH = ["dl", "raw", "D", "teardowns", "live_ping_threads", "closed_handles", "opened_handles", "attempts", "resched", "auto_close", "wire",
             "tx_calls", "draws", "rpos", "rx_calls", "fstart", "lastf", "clock", "rx", "m_open", "m_op", "m_data", "selects", "checks", "reads",
             "last_attempt_clock", "pong_acc", "npings", "last_seq_ok", "seqf"]

    def havoc_all(c, app, old):
        for g in SS_GH:
            if g in c.ghost:
                v = c.ghost[g]
                c.ghost[g] = SV("log", smt.fresh(Log, g)) if g in ("dl", "raw") else (c.havoc_like(v, g) if isinstance(v, SV) else c.fresh("int", g))
        for f, sh in (("keep_running", "bool"), ("has_errored", "bool"), ("has_done_teardown", "bool"), ("last_ping_tm", "real"), ("last_pong_tm", "real")):
            c.setf(app, f, c.fresh(sh, f))
        c.setf(app, "stop_ping", c.fresh(("opt", ("ext", "Event")), "stop_ping"))
        c.setf(app, "ping_thread", c.fresh(("opt", ("ext", "Thread")), "ping_thread"))

    # ---- setSock(reconnecting) ---------------------------------------------------------------------
    def ss_case(reconnect, custom):
        def case(c):
            app = mk_app(c, sock="opt")
            for n in ("selects", "checks", "reads"):
                c.ghost.setdefault(n, c.fresh("int", n))
            c.ghost["pong_acc"] = SV("bytes", smt.empty)
            c.ghost["npings"] = 0
            disp = c.alloc("obj", disp_mod.WrappedDispatcher if custom else disp_mod.Dispatcher,
                           dict(app=app, ping_timeout=c.fresh("real", "select_timeout"), dispatcher=c.new_ext("rel"), handleDisconnect=None))
            env = rf_env(c, e, app, custom_dispatcher=custom, dispatcher=disp, reconnect=(c.fresh("int", "reconnect") if reconnect else 0),
                         sockopt=(), sslopt=c.alloc("dict", None, {}), http_proxy_host=None, http_proxy_port=None, http_no_proxy=None,
                         http_proxy_auth=None, http_proxy_timeout=None, host=None, origin=None, suppress_origin=False, proxy_type=None)
            if reconnect:
                c.assume(z(env["reconnect"]) > 0)
            return {"$closure": env, "reconnecting": c.fresh("bool", "reconnecting")}
        return case

    def ss_req(c, a):
        app = app_of(a)
        # a first attempt starts without a socket; a reconnect may find the previous one
        base = z3.And(APPINV(c, app), z3.Or(z(a["reconnecting"], "bool"), zn(c.getf(app, "sock"))),
                      z(c.ghost["live_ping_threads"], "int") == 0)
        if not env_of(a)["custom_dispatcher"]:
            # the built-in loop makes an attempt only while the run has not been torn down (keep_running)
            base = z3.And(base, z3.Not(z(c.getf(app, "has_done_teardown"), "bool")))
        return base

    def ss_post(c, old, a, res):
        app, env = app_of(a), env_of(a)
        rec = env["reconnect"]
        nodis = isinstance(rec, int) and rec == 0
        # exactly one connection attempt - none at all when the application's close() came while this reconnect was pending
        # (C15: the application's own close() ends the run with no further connection attempt)
        closed_meanwhile = z3.And(z(a["reconnecting"], "bool"), z3.Not(z(old.getf(app, "keep_running"), "bool")))
        base = z3.And(APPINV(c, app), z(c.ghost["attempts"]) == z(old.ghost["attempts"]) + z3.If(closed_meanwhile, 0, 1))
        if not env["custom_dispatcher"]:
            base = z3.And(base, z3.Implies(z3.Not(z(old.getf(app, "has_done_teardown"), "bool")), D_OK(c, old, app)))
        return base

    def ss_exc(c, old, a, exc):
        app = app_of(a)
        if env_of(a)["custom_dispatcher"]:
            return APPINV(c, app)
        return z3.And(APPINV(c, app), z3.Implies(z3.Not(z(old.getf(app, "has_done_teardown"), "bool")), D_OK(c, old, app)))

    def ss_havoc(c, a, old, k):
        app = app_of(a)
        havoc_all(c, app, old)
        c.setf(app, "sock", OptV(smt.fresh(smt.Bool, "app.sock.isnone"), mk_ws(c, recv_state="any", keysrc="none", sock="opt")))

    def ss_mods(c, a):
        app = app_of(a)
        return [app] + ["ghost:" + g for g in SS_GH] + td.modifies(c, dict(a, close_frame=None))
    e.add(Contract(P + RF + "setSock",
                   cases=[(f"reconnect={'on' if r else 'off'},{'external' if cu else 'builtin'}-dispatcher", ss_case(r, cu))
                          for r in (False, True) for cu in (False, True)],
                   requires=ss_req, ensures=ss_post, havoc=ss_havoc, modifies=ss_mods,
                   raises=[(KeyboardInterrupt, None, ss_exc), (SystemExit, None, ss_exc),
                           (Exception, lambda c, old, a: z3.Not(zn(old.getf(app_of(a), "on_error"))), ss_exc)],
                   props=("C13", "C14", "C15"),
                   doc="one connection attempt and, if it succeeds, the whole life of that connection: a previous socket is shut down before the new "
                       "one is created (never two live transports), exactly one connect attempt, ping thread only after a successful connect, "
                       "then exactly one of on_reconnect (reconnecting and set) / on_open before the dispatcher starts reading; every failure goes "
                       "to handleDisconnect"))
    # on_open / on_reconnect come before any read callback of that connection: ghost check at the dispatcher call
    e.after_call[("WebSocketApp.run_forever.<locals>.setSock", "connect")] = \
        lambda c, fr, r: c.ghost.__setitem__("$dl_at_connect", c.ghost["dl"])

    def open_callback_first(c, fr, r):
        """ghost assertion where the open callback has returned: since the connection was established exactly one callback was
        delivered - on_reconnect for a re-established connection when it is set, else on_open (C13, C15)."""
        if "$dl_at_connect" not in c.ghost or fr.parent is None:
            return
        app = fr.parent.locals["self"]
        dl0 = z(c.ghost["$dl_at_connect"])
        orc, oo = c.getf(app, "on_reconnect"), c.getf(app, "on_open")
        use_rc = z3.And(z(fr.locals["reconnecting"], "bool"), z3.Not(zn(orc)))
        c.prove("open-callback.first-and-once", z(c.ghost["dl"]) == z3.If(use_rc, log_append(dl0, orc, ()), log_append(dl0, oo, ())), None)
    e.after_call[("WebSocketApp.run_forever.<locals>.setSock", "_callback")] = open_callback_first


def install_run3(e):
    import websocket._dispatcher as disp_mod
    D = "websocket._dispatcher:"
    ss = e.contracts[P + RF + "setSock"]
    td = e.contracts[P + RF + "teardown"]
    app_of = _app_of

    # ---- DispatcherBase.reconnect(seconds, reconnector) ---------------------------------------------
    def rc_case(c):
        app = mk_app(c, sock="opt")
        for n in ("selects", "checks", "reads"):
            c.ghost.setdefault(n, c.fresh("int", n))
        c.ghost["pong_acc"] = SV("bytes", smt.empty)
        c.ghost["npings"] = 0
        c.ghost["last_attempt_clock"] = c.fresh("real", "last_attempt_clock")
        disp = c.alloc("obj", disp_mod.Dispatcher, dict(app=app, ping_timeout=c.fresh("real", "select_timeout")))
        rec = c.fresh("int", "reconnect")
        c.assume(rec.t > 0)
        env = rf_env(c, e, app, custom_dispatcher=False, dispatcher=disp, reconnect=rec)
        return dict(self=disp, seconds=rec, reconnector=env["setSock"])

    def rc_app(c, a):
        return c.getf(a["self"], "app")

    def rc_req(c, a):
        app = rc_app(c, a)
        return z3.And(APPINV(c, app), z(c.ghost["live_ping_threads"], "int") == 0, z3.Not(z(c.getf(app, "has_done_teardown"), "bool")),
                      z(c.getf(app, "keep_running"), "bool"))

    def rc_post(c, old, a, res):
        app = rc_app(c, a)
        closed = c.ghost.get("$closed_in_pause")
        closed = z3.BoolVal(False) if closed is None else closed
        return z3.And(APPINV(c, app), z(c.ghost["attempts"]) == z(old.ghost["attempts"]) + z3.If(closed, 0, 1),
                      # the attempt comes after the interval
                      z3.Implies(z3.Not(closed), z(c.ghost["last_attempt_clock"], "real") >= z(old.ghost["clock"], "real") + z(a["seconds"], "real")),
                      z3.Implies(z(c.getf(app, "keep_running"), "bool"), z(c.ghost["live_ping_threads"], "int") == 0),
                      z3.Implies(z(c.getf(app, "has_done_teardown"), "bool"), z3.Not(z(c.getf(app, "keep_running"), "bool"))),
                      D_OK(c, old, app))

    def pause_interleaving(c, fr, r):
        """ghost statement after time.sleep() in DispatcherBase.reconnect: another thread may have called app.close() during the
        pause (keep_running' = False, socket dropped) - the one interleaving with application code that C15 names explicitly."""
        app = c.getf(fr.locals["self"], "app")
        kr0 = z(c.getf(app, "keep_running"), "bool")
        app_closed_by_callback(c, app)
        c.ghost["$closed_in_pause"] = z3.And(kr0, z3.Not(z(c.getf(app, "keep_running"), "bool")))
    e.after_call[("DispatcherBase.reconnect", "sleep")] = pause_interleaving

    def rc_exc(c, old, a, exc):
        return z3.And(APPINV(c, rc_app(c, a)), D_OK(c, old, rc_app(c, a)))

    def rc_havoc(c, a, old, k):
        ss.havoc(c, {"$closure": {"self": rc_app(c, a)}, "reconnecting": True}, old, k)
        c.ghost["$closed_in_pause"] = smt.fresh(smt.Bool, "closed_in_pause")
    e.add(Contract(D + "DispatcherBase.reconnect", cases=[("builtin", rc_case)], requires=rc_req, ensures=rc_post, havoc=rc_havoc,
                   modifies=lambda c, a: ss.modifies(c, {"$closure": {"self": rc_app(c, a)}}),
                   raises=[(KeyboardInterrupt, None, rc_exc), (SystemExit, None, rc_exc),
                           (Exception, lambda c, old, a: z3.Not(zn(old.getf(rc_app(c, a), "on_error"))), rc_exc)],
                   props=("C15",),
                   doc="sleeps for the interval, then makes exactly one connection attempt (reconnector(reconnecting=True)): the attempt's "
                       "timestamp is at least `seconds` after entry"))
    # the attempt timestamp and liveness facts come from setSock's contract; tie them here
    base_post = ss.ensures

    def ss_post2(c, old, a, res):
        app = app_of(a)
        done0, done1 = z(old.getf(app, "has_done_teardown"), "bool"), z(c.getf(app, "has_done_teardown"), "bool")
        # built-in loop: setSock returns only when that connection is over, so a run that goes on has no ping thread left;
        # with an external dispatcher setSock returns as soon as the read callback is registered (the connection lives on)
        builtin_only = [] if env_of_(a)["custom_dispatcher"] else [
            z3.Implies(z(c.getf(app, "keep_running"), "bool"), z(c.ghost["live_ping_threads"], "int") == 0)]
        extra = builtin_only + [
                 z(c.ghost["teardowns"]) == z(old.ghost["teardowns"]) + z3.If(z3.And(done1, z3.Not(done0)), 1, 0),
                 z3.Implies(done0, done1)] + ([] if env_of_(a)["custom_dispatcher"] else [
                     z3.Implies(done1, z3.And(zn(c.getf(app, "sock")), z(c.ghost["live_ping_threads"], "int") == 0))]) + [
                 z3.Implies(z(c.getf(app, "has_done_teardown"), "bool"), z3.Not(z(c.getf(app, "keep_running"), "bool")))]
        if "last_attempt_clock" in c.ghost and "clock" in old.ghost:
            attempted = z3.Not(z3.And(z(a["reconnecting"], "bool"), z3.Not(z(old.getf(app, "keep_running"), "bool"))))
            extra.append(z3.Implies(attempted, z(c.ghost["last_attempt_clock"], "real") >= z(old.ghost["clock"], "real")))
        return z3.And(base_post(c, old, a, res), *extra)
    ss.ensures = ss_post2


def install_run_forever(e):
    import websocket._dispatcher as disp_mod
    D = "websocket._dispatcher:"
    ss = e.contracts[P + RF + "setSock"]
    td = e.contracts[P + RF + "teardown"]
    SS_MODS = ss.modifies

    # parse_url as used here (its own contract: C18)
    if "websocket._url:parse_url" not in e.contracts:
        e.add(Contract("websocket._url:parse_url", cases=[], assumed=True,
                       result=lambda c, a: (c.fresh("str", "host"), c.fresh("int", "port"), c.fresh("str", "resource"), c.fresh("bool", "is_secure")),
                       raises=[(ValueError, None, None)], havoc=lambda c, a, old, k: None))
    e.add(Contract("ext:rel.signal", assumed=True, havoc=lambda c, a, old, k: None))

    def rf_case(reconnect, custom):
        def case(c):
            app = mk_app(c, sock="opt")
            for n in ("selects", "checks", "reads"):
                c.ghost.setdefault(n, c.fresh("int", n))
            c.ghost["pong_acc"] = SV("bytes", smt.empty)
            c.ghost["npings"] = 0
            d = dict(self=app, ping_interval=c.fresh(("opt", "real"), "ping_interval"), ping_timeout=c.fresh(("opt", "real"), "ping_timeout"),
                     ping_payload=c.fresh("str", "payload"))
            if reconnect:
                d["reconnect"] = c.fresh("int", "reconnect")
                c.assume(d["reconnect"].t > 0)
            else:
                d["reconnect"] = 0
            if custom:
                d["dispatcher"] = c.new_ext("rel", abort=c.new_ext("callback"))
            return d
        return case

    def bad_settings(c, old, a):
        app = a["self"]
        pi, pt = a.get("ping_interval", 0), a.get("ping_timeout")
        PI, PT = unopt(pi), unopt(pt)
        pin, ptn = zn(pi), zn(pt)
        piv = z(PI, "real") if PI is not None else z3.RealVal(0)
        ptv = z(PT, "real") if PT is not None else z3.RealVal(0)
        return z3.Or(z3.And(z3.Not(ptn), ptv <= 0), z3.And(z3.Not(pin), piv < 0),
                     z3.And(z3.Not(ptn), ptv != 0, z3.Not(pin), piv != 0, piv <= ptv),
                     z3.Not(zn(old.getf(app, "sock"))))

    def refused(c, old, a, exc):
        app = a["self"]
        return z3.And(z(c.ghost["attempts"]) == z(old.ghost["attempts"]), z(c.ghost["dl"]) == z(old.ghost["dl"]),
                      z(c.ghost["opened_handles"]) == z(old.ghost["opened_handles"]))

    def ended(c, old, a):
        """state after a run with the built-in dispatcher, however it ended."""
        app = a["self"]
        # on_close delivered in exactly one teardown, and no callback other than an on_error report after it
        last_is_close = z(c.ghost["D"]) <= 0
        return z3.And(z(c.getf(app, "has_done_teardown"), "bool"), z3.Not(z(c.getf(app, "keep_running"), "bool")), zn(c.getf(app, "sock")),
                      z(c.ghost["teardowns"]) == z(old.ghost["teardowns"]) + 1, last_is_close,
                      z(c.ghost["live_ping_threads"], "int") == 0,
                      z(c.ghost["opened_handles"]) == z(c.ghost["closed_handles"]))

    def rf_req(c, a):
        app = a["self"]
        return z3.And(APPINV(c, app), z(c.ghost["live_ping_threads"], "int") == 0, z3.Not(z(c.getf(app, "keep_running"), "bool")))

    def rf_post(c, old, a, res):
        app = a["self"]
        base = z3.And(z3.Not(bad_settings(c, old, a)), z(res, "bool") == z(c.getf(app, "has_errored"), "bool"))
        if "dispatcher" in a:
            return base
        return z3.And(base, ended(c, old, a))

    def rf_sysexit(c, old, a, exc):
        return ended(c, old, a) if "dispatcher" not in a else z3.BoolVal(True)

    def entry_state(c, a):
        """state in which run_forever makes its first connection attempt (C14: flags reset so that the object can be run again;
        C16: the validated settings are stored unchanged)."""
        app = _app_of(a)
        fr = c.frames[-1]
        args = fr.locals
        same = lambda x, y: z3.And(zn(x) == zn(y), z3.Implies(z3.Not(zn(x)), z(unopt(x), "real") == z(unopt(y), "real"))) \
            if unopt(x) is not None and unopt(y) is not None else z3.And(zn(x), zn(y))
        return z3.And(z3.Not(z(c.getf(app, "has_done_teardown"), "bool")), z3.Not(z(c.getf(app, "has_errored"), "bool")),
                      z(c.getf(app, "keep_running"), "bool"),
                      same(c.getf(app, "ping_interval"), args["ping_interval"]), same(c.getf(app, "ping_timeout"), args["ping_timeout"]),
                      z(c.getf(app, "ping_payload")) == z(args["ping_payload"]),
                      z(c.ghost["attempts"]) == z(c.ghost["$attempts0"]),
                      # a connection is attempted only with consistent settings and no socket open
                      z3.Not(c.ghost["$bad_settings"]))
    e.cut_calls[("WebSocketApp.run_forever", "WebSocketApp.run_forever.<locals>.setSock")] = entry_state
    # the rest of run_forever (reconnect loop, except / finally, return value) is verified against setSock's contract; the case with
    # the built-in reconnect loop is expensive (about 120 CPU-minutes) and is cut after the entry state in the quick tier
    e.cut_continue[("WebSocketApp.run_forever", "WebSocketApp.run_forever.<locals>.setSock")] = \
        lambda eng, c: eng.tier == "thorough" or not c.fn_label.endswith("reconnect=on,builtin-dispatcher")

    def rf_loop_inv(c, fr, entry):
        """reconnect loop of the built-in dispatcher: between attempts the run is either still going (no ping thread, not torn
        down) or was torn down exactly once in this run (no socket, no ping thread, on_close delivered last)."""
        app = fr.locals["self"]
        done = z(c.getf(app, "has_done_teardown"), "bool")
        return z3.And(APPINV(c, app),
                      z(c.ghost["teardowns"]) == z(c.ghost["$teardowns0"]) + z3.If(done, 1, 0),
                      z3.Implies(done, z3.And(zn(c.getf(app, "sock")), z(c.ghost["live_ping_threads"], "int") == 0, z(c.ghost["D"]) <= 0)),
                      z3.Implies(z(c.getf(app, "keep_running"), "bool"), z(c.ghost["live_ping_threads"], "int") == 0))

    def rf_loop_havoc(c, fr, entry):
        ss.havoc(c, {"$closure": {"self": fr.locals["self"]}, "reconnecting": True}, entry, 0)
    e.loop("WebSocketApp.run_forever", 0, inv=rf_loop_inv, havoc=rf_loop_havoc,
           modifies=lambda c, fr: SS_MODS(c, {"$closure": {"self": fr.locals["self"]}}))

    e.add(Contract(P + "WebSocketApp.run_forever",
                   cases=[(f"reconnect={'on' if r else 'off'},{'external' if cu else 'builtin'}-dispatcher", rf_case(r, cu))
                          for r in (False, True) for cu in (False, True)],
                   requires=rf_req, ensures=rf_post, result=lambda c, a: c.fresh("bool", "errored"),
                   ghost_entry=lambda c, a: (c.ghost.__setitem__("$attempts0", c.ghost["attempts"]),
                                             c.ghost.__setitem__("$teardowns0", c.ghost["teardowns"]),
                                             c.ghost.__setitem__("$bad_settings", bad_settings(c, c, a))),
                   havoc=lambda c, a, old, k: ss.havoc(c, {"$closure": {"self": a["self"]}, "reconnecting": False}, old, 0),
                   modifies=lambda c, a: SS_MODS(c, {"$closure": {"self": a["self"]}}),
                   # KeyboardInterrupt is not in this list: wherever it is raised (a callback, the transport, time.sleep) the run is
                   # torn down and run_forever returns (C14)
                   raises=[(X.WebSocketException, bad_settings, refused), (SystemExit, None, rf_sysexit),
                           (ValueError, None, refused),
                           # external dispatcher only: run_forever returns as soon as the callbacks are registered and the run goes on
                           # inside the dispatcher; an interrupt raised by on_close during the teardown in run_forever's own handler
                           # (i.e. a second interrupt while the first is being handled) still propagates (DESIGN 10.4)
                           (KeyboardInterrupt, lambda c, old, a: z3.BoolVal("dispatcher" in a), rf_sysexit),
                           (Exception, lambda c, old, a: z3.Not(zn(old.getf(a["self"], "on_error"))), rf_sysexit)],
                   props=("C14", "C15", "C16"),
                   doc="inconsistent ping settings (timeout <= 0, interval < 0, interval <= timeout) or an already open socket are refused with "
                       "WebSocketException before any connection attempt; otherwise, with the built-in dispatcher, on every exit path (try/except/"
                       "finally) teardown has run exactly once in this run, on_close is the last callback delivered, the socket is dropped, no "
                       "transport and no ping thread is left, and the return value is has_errored (reset at entry)"))


def install_ping(e):
    """_send_ping (C16) and the timing lemmas over the contract of check()."""
    K = "websocket._core:"

    def sp_case(c):
        app = mk_app(c, sock="opt")
        c.setf(app, "stop_ping", c.new_ext("Event"))
        c.ghost["pings_sent"] = c.fresh("int", "pings_sent")
        return dict(self=app)

    def after_ping(c, fr, r):
        if "pings_sent" in c.ghost:
            app = fr.locals["self"]
            c.ghost["pings_sent"] = SV("int", z(c.ghost["pings_sent"]) + 1)
            # the stamp is taken immediately before the ping is written
            c.prove("ping.stamp-before-send", z(c.getf(app, "last_ping_tm"), "real") == z(c.ghost["clock"], "real"), None)
    e.after_call[("WebSocketApp._send_ping", "ping")] = after_ping

    def sp_inv(c, fr, entry):
        app = fr.locals["self"]
        return z3.And(z(c.ghost["pings_sent"]) >= z(entry.ghost["pings_sent"]), z(c.getf(app, "ping_payload")) == z(entry.getf(app, "ping_payload")))

    def sp_loop_havoc(c, fr, entry):
        app = fr.locals["self"]
        for g, tg in (("pings_sent", "int"), ("clock", "real"), ("wire", "bytes"), ("tx_calls", "int"), ("draws", "int")):
            c.ghost[g] = c.fresh(tg, g)
        c.setf(app, "last_ping_tm", c.fresh("real", "last_ping_tm"))
        c.setf(app, "keep_running", c.fresh("bool", "keep_running"))
        havoc_sock(c, app, entry)
    e.loop("WebSocketApp._send_ping", 0, inv=sp_inv, havoc=sp_loop_havoc, shapes={"e": ("const", None)},
           modifies=lambda c, fr: [(fr.locals["self"], "last_ping_tm"), (fr.locals["self"], "keep_running"), (fr.locals["self"], "sock")])
    # the ping carries the configured payload: checked as the precondition of the ping call made from _send_ping
    pingc = e.contracts[K + "WebSocket.ping"]
    base_req = pingc.requires

    def ping_req(c, a):
        r = base_req(c, a)
        fr = c.frames[-1] if c.frames else None
        if fr is not None and fr.qual == "WebSocketApp._send_ping":
            app = fr.locals["self"]
            return z3.And(r, z(a["payload"]) == z(c.getf(app, "ping_payload")))
        return r
    pingc.requires = ping_req
    e.add(Contract(P + "WebSocketApp._send_ping", cases=[("any", sp_case)],
                   ensures=lambda c, old, a, res: z(c.ghost["pings_sent"]) >= z(old.ghost["pings_sent"]),
                   modifies=lambda c, a: [(a["self"], "last_ping_tm"), (a["self"], "keep_running"), (a["self"], "sock"),
                                          "ghost:pings_sent", "ghost:clock", "ghost:wire", "ghost:tx_calls", "ghost:draws"],
                   props=("C16",),
                   doc="ping thread body: waits one interval, then, until the stop event is set or keep_running is no longer True, stamps "
                       "last_ping_tm with the clock and sends one ping carrying the configured payload per interval (send errors are swallowed)"))


def lemma_timing(e):
    """Timing lemmas over the exact predicate of check() (linear real arithmetic).  Hypotheses: S1 a check happens in every
    window of length T (select(T) returns within T), S2 processing takes no time, S3 frames arrive completely."""
    T, I, t, p, q, p1 = z3.Reals("T I t p q p1")
    raises = z3.And(T != 0, p != 0, t - p > T, z3.Or(q - p < 0, q - p > T))
    # L-NOFALSE: p = stamp of the last ping sent at or before t; if more than T has passed since, its pong was processed
    # at some q in [p, p+T] (no later ping overwrote the stamp, since I > T would need ... see below)
    e.lemma("L-NOFALSE", [T > 0, p <= t, z3.Implies(t - p > T, z3.And(q >= p, q <= p + T))], z3.Not(raises), props=("C16",))
    # L-DETECT: pings at p1, p1+I, ...; no pong processed after p1 (q < p1); a check at some t in (p1+T, p1+2T].
    # last_ping_tm at that time is the latest ping stamp <= t.
    k = z3.Int("k")
    hyp = [T > 0, I > T, p1 > 0, q < p1, t > p1 + T, t <= p1 + 2 * T,
           # p is the latest ping stamp not after t
           k >= 0, p == p1 + z3.ToReal(k) * I, p <= t, p + I > t]
    e.lemma("L-DETECT[interval > 2*timeout]", hyp + [I > 2 * T], raises, props=("C16",))
    e.lemma("L-DETECT[timeout < interval <= 2*timeout]", hyp + [I <= 2 * T], raises, props=("C16",))


LEMMAS = {"lemma:timing": lemma_timing}
