"""Contracts for websocket/_core.py (WebSocket) and websocket/_socket.py."""
import socket as _socket
import ssl as _ssl
import z3
from pyvc import smt
from pyvc.engine import Contract
from pyvc.ctx import Undecided
from pyvc.values import SV, Ref, Ext, ExcVal, BoundMethod, OptV, z, zn, unopt, isnone, tag_of
from pyvc.smt import slen, at, slc, cat, unit, Int, Sq
from . import spec
from .abnf import abnf_shape, F, keybytes, fmt_fields, fmt_bad_fields
import websocket._exceptions as X
import websocket._core as core_mod
import websocket._abnf as abnf_mod

K = "websocket._core:"
SK = "websocket._socket:"

TRANSPORT_EXC = [X.WebSocketConnectionClosedException, X.WebSocketTimeoutException, OSError]


def appended(c, w1, w0, d, l):
    """w1 == w0 ++ d[:l]."""
    return c.eq(w1, cat(w0, slc(d, 0, l)))


def ghost_conn(c):
    """Ghost state of one connection (DESIGN section 3)."""
    g = c.ghost
    if "wire" in g:
        return
    g["rx"] = c.fresh("bytes", "rx")
    g["rpos"] = c.fresh("int", "rpos")
    g["wire"] = c.fresh("bytes", "wire")
    g["draws"] = c.fresh("int", "draws")
    g["tx_calls"] = c.fresh("int", "tx_calls")  # number of transport send() calls made
    g["rx_calls"] = c.fresh("int", "rx_calls")  # number of transport recv() calls made
    g["closed_handles"] = c.fresh("int", "closed_handles")  # transports closed so far
    c.assume(z3.And(z(g["rpos"]) >= 0, z(g["rpos"]) <= slen(z(g["rx"])), slen(z(g["rx"])) < 2 ** 63, z(g["draws"]) >= 0, z(g["tx_calls"]) >= 0,
                    z(g["rx_calls"]) >= 0, z(g["closed_handles"]) >= 0))


def mk_ws(c, sock="opt", connected="bool", keysrc="any", fire=None, skip=None, dispatcher=None, lock="Lock",
          recv_state="idle"):
    """Symbolic WebSocket object with its frame_buffer / continuous_frame sub-objects.
    recv_state 'idle' fixes the (irrelevant) receive-side state to the freshly constructed one."""
    from .recv import fb_shape, cf_shape, fb_idle, cf_idle
    ghost_conn(c)
    cls = core_mod.WebSocket
    ws = c.alloc("obj", cls, {})
    s = c.fresh(("opt", ("ext", "sock")), "sock") if sock == "opt" else (c.new_ext("sock") if sock == "open" else None)
    c.setf(ws, "sock", s)
    c.setf(ws, "connected", c.fresh("bool", "connected") if connected == "bool" else connected)
    ks = {"any": ("opt", ("oneof", [("ext", "keysource"), ("ext", "keysource_str")])), "bytes": ("opt", ("ext", "keysource")),
          "none": "none"}[keysrc]
    c.setf(ws, "get_mask_key", c.fresh(ks, "ws_keysrc"))
    skipv = c.fresh("bool", "skip_utf8") if skip is None else skip
    firev = c.fresh("bool", "fire_cont") if fire is None else fire
    fbo = c.fresh(fb_idle(skipv) if recv_state == "idle" else fb_shape(skipv), "fb")
    c.setf(fbo, "recv", BoundMethod(ws, cls.__dict__["_recv"], "_recv"))
    c.setf(ws, "frame_buffer", fbo)
    c.setf(ws, "cont_frame", c.fresh(cf_idle(firev, skipv) if recv_state == "idle" else cf_shape(firev, skipv), "cf"))
    c.setf(ws, "dispatcher", c.fresh(("opt", ("ext", "dispatcher")), "disp") if dispatcher == "opt" else None)
    if lock == "Lock":
        c.setf(ws, "lock", c.new_ext("Lock", name="lock"))
        c.setf(ws, "readlock", c.new_ext("Lock", name="readlock"))
    else:
        import websocket._utils as u
        c.setf(ws, "lock", c.alloc("obj", u.NoLock, {}))
        c.setf(ws, "readlock", c.alloc("obj", u.NoLock, {}))
    c.setf(ws, "handshake_response", None)
    so = c.alloc("obj", __import__("websocket._socket", fromlist=["sock_opt"]).sock_opt,
                 dict(sockopt=(), sslopt=c.alloc("dict", None, {}), timeout=c.fresh("real", "timeout")))
    c.setf(ws, "sock_opt", so)
    return ws


def src_id(v):
    return v.id if isinstance(v, Ext) else 0


def lock_ok(c, ws, which="lock"):
    """Caller holds ws.<which> (or the connection was created with enable_multithread=False)."""
    lk = unopt(c.getf(ws, which))
    if isinstance(lk, Ref):
        return True
    return any(l is lk for l in c.locks)


def install(e):
    _install_base(e)
    install_send(e)
    install_send2(e)
    install_lock_discipline(e)
    install_close(e)
    install_init(e)


def _install_logging(e):
    L = "websocket._logging:"
    for f in ("trace", "debug", "info", "error", "warning", "dump"):
        e.add(Contract(L + f, assumed=True, havoc=lambda c, a, old, k: None,
                       doc="logging call: effect-free (its argument expressions are evaluated by the caller)"))
    for f in ("isEnabledForTrace", "isEnabledForError", "isEnabledForDebug"):
        e.add(Contract(L + f, assumed=True, result=lambda c, a: c.fresh("bool", "log_enabled"), havoc=lambda c, a, old, k: None,
                       doc="unconstrained boolean: both logging on and off are verified"))


def _install_base(e):
    _install_logging(e)
    e.add(Contract("_thread:allocate_lock", assumed=True, result=lambda c, a: c.new_ext("Lock"),
                   doc="threading.Lock(): a mutex (mutual exclusion, release/acquire ordering) - DESIGN 5 C12"))

    # ================================================================= transport (assumed)
    def sock_send_res(c, a):
        d = z(a["$args"][0])
        l = c.fresh("int", "accepted")
        w0 = z(c.ghost["wire"])
        w1 = c.fresh("bytes", "wire")
        c.assume(z3.And(l.t >= 0, l.t <= slen(d)))
        c.assume(appended(c, w1.t, w0, d, l.t))
        c.ghost["wire"] = w1
        c.ghost["tx_calls"] = SV("int", z(c.ghost["tx_calls"]) + 1)
        return l

    def bump_tx(c, old, a, exc):
        c.ghost["tx_calls"] = SV("int", z(c.ghost["tx_calls"]) + 1)
        return True
    EAGAIN = 11

    def oserr(errno_shape):
        def post(c, old, a, exc):
            bump_tx(c, old, a, exc)
            if errno_shape == "eagain":
                return ExcVal(OSError, (EAGAIN, "Resource temporarily unavailable"))
            if errno_shape == "noargs":
                return ExcVal(OSError, ())
            en = c.fresh("int", "errno")
            c.assume(z3.And(en.t != EAGAIN, en.t > 0))
            return ExcVal(OSError, (en, "error"), {"errno": en})
        return post

    def timeout_exc(c, old, a, exc):
        bump_tx(c, old, a, exc)
        return ExcVal(_socket.timeout, ("timed out",))

    def ssl_exc(cls, msgkind):
        def post(c, old, a, exc):
            bump_tx(c, old, a, exc)
            if msgkind == "timeout":
                return ExcVal(cls, ("The write operation timed out",))
            return ExcVal(cls, (c.fresh("int", "sslerrno"), "ssl failure"))
        return post
    e.add(Contract("ext:sock.send", assumed=True, result=sock_send_res, havoc=lambda c, a, old, k: None,
                   raises=[(_socket.timeout, None, timeout_exc), (OSError, None, oserr("eagain")), (OSError, None, oserr("other")),
                           (OSError, None, oserr("noargs")),
                           (_ssl.SSLEOFError, None, ssl_exc(_ssl.SSLEOFError, "eof")),
                           (_ssl.SSLWantWriteError, None, ssl_exc(_ssl.SSLWantWriteError, "want")),
                           (_ssl.SSLError, None, ssl_exc(_ssl.SSLError, "timeout")), (_ssl.SSLError, None, ssl_exc(_ssl.SSLError, "other"))],
                   doc="sock.send(d): returns l, 0<=l<=len d, wire' = wire ++ d[:l]; or raises (timeout / OSError incl. EAGAIN / SSL errors) "
                       "with wire unchanged.  Which outcome, and l, are unconstrained (all short-write patterns)."))
    e.add(Contract("ext:sock.gettimeout", assumed=True, result=lambda c, a: c.fresh(("opt", "real"), "socktimeout"),
                   havoc=lambda c, a, old, k: None))
    e.add(Contract("ext:sock.settimeout", assumed=True,
                   havoc=lambda c, a, old, k: a["self"].attrs.__setitem__("timeout", a["$args"][0] if a["$args"] else None),
                   doc="sock.settimeout(t): later blocking reads on this handle wait at most t (None: for ever)"))

    def sel_result(c, a):
        return c.fresh(("oneof", [("const", ()), ("const", ("ready",))]), "ready")
    e.add(Contract("new:selectors.EpollSelector", assumed=True, result=lambda c, a: c.new_ext("selector")))
    e.add(Contract("new:selectors.DefaultSelector", assumed=True, result=lambda c, a: c.new_ext("selector")))
    for m in ("register", "close", "unregister"):
        e.add(Contract(f"ext:selector.{m}", assumed=True, havoc=lambda c, a, old, k: None))
    e.add(Contract("ext:selector.select", assumed=True, result=sel_result, havoc=lambda c, a, old, k: None,
                   doc="selector.select(t): returns a (possibly empty) list of ready keys"))

    # ================================================================= _socket.send
    def ssend_cases():
        def mk(dk, sk):
            def case(c):
                ghost_conn(c)
                return dict(sock=c.new_ext("sock") if sk == "open" else None, data=c.fresh(dk, "data"))
            return case
        return [(f"{dk}-{sk}", mk(dk, sk)) for dk in ("bytes", "str") for sk in ("open", "none")]

    def data_bytes(a):
        return z(a["data"]) if tag_of(a["data"]) == "bytes" else smt.utf8_enc(z(a["data"]))

    def ssend_post(c, old, a, res):
        w0, w1, d = z(old.ghost["wire"]), z(c.ghost["wire"]), data_bytes(a)
        if res is None:
            return c.eq(w1, w0)
        return z3.And(z(res) >= 0, z(res) <= slen(d), appended(c, w1, w0, d, z(res)))

    def wire_same(c, old, a, exc):
        return c.eq(z(c.ghost["wire"]), z(old.ghost["wire"]))

    def ssend_havoc(c, a, old, k):
        c.ghost["wire"] = c.fresh("bytes", "wire")
        c.ghost["tx_calls"] = c.fresh("int", "tx_calls")
        c.ghost["$last_send_data"] = a["data"]
        c.ghost["$last_send_sock"] = a["sock"]
    e.add(Contract(SK + "send", cases=ssend_cases(), ensures=lambda c, old, a, res: z3.And(
                       ssend_post(c, old, a, res), z3.BoolVal(a["sock"] is not None),
                       z(c.ghost["tx_calls"]) >= z(old.ghost["tx_calls"]) + (1 if res is not None else 0),
                       z(c.ghost["tx_calls"]) <= z(old.ghost["tx_calls"]) + 2),
                   result=lambda c, a: c.fresh(("oneof", ["int", "none"]), "sent"),
                   raises=[(X.WebSocketConnectionClosedException, None,
                            lambda c, old, a, exc: z3.And(wire_same(c, old, a, exc),
                                                          z3.Implies(z3.BoolVal(a["sock"] is None), z(c.ghost["tx_calls"]) == z(old.ghost["tx_calls"])))),
                           (X.WebSocketTimeoutException, lambda c, old, a: z3.BoolVal(a["sock"] is not None), wire_same),
                           (UnicodeEncodeError, lambda c, old, a: z3.BoolVal(tag_of(a["data"]) == "str"), wire_same),
                           (OSError, lambda c, old, a: z3.BoolVal(a["sock"] is not None), wire_same)],
                   normal_when=lambda c, old, a: z3.BoolVal(a["sock"] is not None),
                   modifies=lambda c, a: ["ghost:wire", "ghost:tx_calls"], havoc=ssend_havoc, props=("C12", "C08", "C01"),
                   doc="one frame chunk: wire' = wire ++ data[:result]; no sock => connection-closed without touching a transport"))


def install_send(e):
    W = core_mod.WebSocket

    # ================================================================= WebSocket._send
    def _send_case(disp):
        def case(c):
            import websocket._dispatcher as disp_mod
            ws = mk_ws(c, dispatcher=None)
            if disp == "builtin-dispatcher":
                # the object WebSocketApp installs for its own select loop (DispatcherBase.send, contract in contracts/extra.py)
                c.setf(ws, "dispatcher", c.alloc("obj", disp_mod.Dispatcher, dict(app=None, ping_timeout=c.fresh("real", "select_timeout"))))
            elif disp == "external-dispatcher":
                # the wrapper around a caller-supplied (rel-like) event loop (WrappedDispatcher.send)
                c.setf(ws, "dispatcher", c.alloc("obj", disp_mod.WrappedDispatcher, dict(
                    app=None, ping_timeout=c.fresh(("opt", "real"), "select_timeout"), dispatcher=c.new_ext("rel"),
                    handleDisconnect=c.new_ext("callback"))))
            c.locks.append(c.getf(ws, "lock"))
            return dict(self=ws, data=c.fresh("bytes", "data"))
        return case

    def _send_post(c, old, a, res):
        w0, w1, d = z(old.ghost["wire"]), z(c.ghost["wire"]), z(a["data"])
        if res is None:
            return c.eq(w1, w0)
        return z3.And(z(res) >= 0, z(res) <= slen(d), appended(c, w1, w0, d, z(res)))

    def wire_same(c, old, a, exc):
        return c.eq(z(c.ghost["wire"]), z(old.ghost["wire"]))

    def sock_none(c, old, a):
        # C08: once the transport is gone every send raises connection-closed, whichever dispatcher object is installed
        return zn(old.getf(a["self"], "sock"))

    def havoc_wire(c, a, old, k):
        c.ghost["wire"] = c.fresh("bytes", "wire")
        c.ghost["tx_calls"] = c.fresh("int", "tx_calls")
    e.add(Contract(K + "WebSocket._send", cases=[("builtin", _send_case(None)), ("builtin-dispatcher", _send_case("builtin-dispatcher")),
                                                 ("external-dispatcher", _send_case("external-dispatcher"))],
                   requires=lambda c, a: z3.BoolVal(lock_ok(c, a["self"], "lock") and tag_of(a["data"]) == "bytes"),
                   ensures=lambda c, old, a, res: z3.And(_send_post(c, old, a, res), z3.Not(sock_none(c, old, a))),
                   result=lambda c, a: c.fresh(("oneof", ["int", "none"]), "sent"),
                   raises=[(X.WebSocketConnectionClosedException, None,
                            lambda c, old, a, exc: z3.And(wire_same(c, old, a, exc),
                                                          z3.Implies(sock_none(c, old, a), z(c.ghost["tx_calls"]) == z(old.ghost["tx_calls"])))),
                           (X.WebSocketTimeoutException, lambda c, old, a: z3.Not(sock_none(c, old, a)), wire_same),
                           (OSError, lambda c, old, a: z3.Not(sock_none(c, old, a)), wire_same)],
                   modifies=lambda c, a: ["ghost:wire", "ghost:tx_calls"], havoc=havoc_wire, props=("C12", "C08", "C01"),
                   doc="requires the send lock; wire' = wire ++ data[:result]; failures leave the wire unchanged"))

    # ================================================================= WebSocket.send_frame
    def sf_case(frame_ks):
        def case(c):
            ws = mk_ws(c)
            return dict(self=ws, frame=c.fresh(abnf_shape("bytes", frame_ks), "frame"))
        return case

    def fmt_bad(c, old, a):
        fin, r1, r2, r3, op, mv, data = fmt_fields(c, a["frame"], view=old)
        return fmt_bad_fields(fin, r1, r2, r3, op, data)

    def used_source(c, old, a):
        """identity of the key source that must be used: the connection's if set, else the frame's own."""
        ks = old.getf(a["self"], "get_mask_key")
        own = src_id(unopt(old.getf(a["frame"], "get_mask_key")))
        if unopt(ks) is None:
            return z3.IntVal(own)
        return z3.If(zn(ks), own, src_id(unopt(ks)))

    def sf_post(c, old, a, res):
        fin, r1, r2, r3, op, mv, data = fmt_fields(c, a["frame"], view=old)
        w0, w1, d0 = z(old.ghost["wire"]), z(c.ghost["wire"]), z(old.ghost["draws"])
        enc = spec.rfc_encode(fin, r1, r2, r3, op, mv, spec.keyfn(d0), data)
        return z3.And(z3.Not(fmt_bad(c, old, a)), c.eq(w1, cat(w0, enc)), z(res) == slen(enc),
                      z(c.ghost["draws"]) == d0 + z3.If(mv == 1, 1, 0),
                      z3.Implies(mv == 1, z3.And(spec.srcfn(d0) == used_source(c, old, a), slen(spec.keyfn(d0)) == 4)))

    def sf_fail(c, old, a, exc):
        # a failed transport write ends the connection; what reached the wire is a prefix of one encoding
        fin, r1, r2, r3, op, mv, data = fmt_fields(c, a["frame"], view=old)
        w0, w1, d0 = z(old.ghost["wire"]), z(c.ghost["wire"]), z(old.ghost["draws"])
        enc = spec.rfc_encode(fin, r1, r2, r3, op, mv, spec.keyfn(d0), data)
        n = slen(w1) - slen(w0)
        return z3.And(n >= 0, n < slen(enc), c.eq(w1, cat(w0, slc(enc, 0, n))))

    def sf_inv(c, fr, entry):
        data, Fv = z(fr.locals["data"]), z(fr.locals["$F"])
        w0, w1 = z(fr.locals["$w0"]), z(c.ghost["wire"])
        done = slen(Fv) - slen(data)
        return z3.And(done >= 0, c.eq(w1, cat(w0, slc(Fv, 0, done))), c.eq(data, slc(Fv, done, slen(Fv))))

    def sf_loop_havoc(c, fr, entry):
        c.ghost["wire"] = c.fresh("bytes", "wire")
        c.ghost["tx_calls"] = c.fresh("int", "tx_calls")
    e.loop("WebSocket.send_frame", 0, inv=sf_inv, havoc=sf_loop_havoc, shapes={"l": ("oneof", ["int", "none"])},
           ghost_locals=lambda c, fr: {"$F": fr.locals["data"], "$w0": c.ghost["wire"]})

    def sf_havoc(c, a, old, k):
        c.ghost["wire"] = c.fresh("bytes", "wire")
        c.ghost["tx_calls"] = c.fresh("int", "tx_calls")
        c.ghost["draws"] = c.fresh("int", "draws")
        ks = c.force(old.getf(a["self"], "get_mask_key"))
        if ks is not None:
            c.setf(a["frame"], "get_mask_key", ks)
    e.add(Contract(K + "WebSocket.send_frame", cases=[("frame-key-bytes", sf_case("keysource")), ("frame-key-str", sf_case("keysource_str"))],
                   requires=lambda c, a: z3.And(z3.Or(z(c.getf(a["frame"], "mask_value")) == 0, z(c.getf(a["frame"], "mask_value")) == 1),
                                               z3.BoolVal(tag_of(c.getf(a["frame"], "data")) == "bytes")),
                   ensures=sf_post, result=lambda c, a: c.fresh("int", "nsent"),
                   raises=[(ValueError, fmt_bad, lambda c, old, a, exc: z3.And(c.eq(z(c.ghost["wire"]), z(old.ghost["wire"])),
                                                                                z(c.ghost["tx_calls"]) == z(old.ghost["tx_calls"])))] +
                          [(cls, None, sf_fail) for cls in TRANSPORT_EXC],
                   modifies=lambda c, a: ["ghost:wire", "ghost:tx_calls", "ghost:draws", (a["frame"], "get_mask_key")],
                   havoc=sf_havoc, props=("C01", "C07", "C12"),
                   doc="wire' = wire ++ rfc_encode(frame, key = one draw from the connection's key source if set else the frame's own); "
                       "result = number of frame bytes; holds for all short-write patterns (loop invariant); "
                       "a transport failure leaves a prefix of that one encoding"))


def install_send2(e):
    """send / ping / pong / send_close (C01, C07, C08)."""
    def sent_frame(c, old, opcode, payload):
        d0 = z(old.ghost["draws"])
        return spec.rfc_encode(1, 0, 0, 0, opcode, 1, spec.keyfn(d0), payload)

    def ws_source(c, old, a):
        ks = old.getf(a["self"], "get_mask_key")
        if unopt(ks) is None:
            return z3.IntVal(0)
        return z3.If(zn(ks), 0, src_id(unopt(ks)))

    def wire_grows_by(c, old, a, opcode, payload):
        w0, w1, d0 = z(old.ghost["wire"]), z(c.ghost["wire"]), z(old.ghost["draws"])
        return z3.And(c.eq(w1, cat(w0, sent_frame(c, old, opcode, payload))), z(c.ghost["draws"]) == d0 + 1,
                      spec.srcfn(d0) == ws_source(c, old, a), slen(spec.keyfn(d0)) == 4)

    def partial(c, old, a, opcode, payload):
        w0, w1 = z(old.ghost["wire"]), z(c.ghost["wire"])
        enc = sent_frame(c, old, opcode, payload)
        n = slen(w1) - slen(w0)
        return z3.And(n >= 0, n < slen(enc), c.eq(w1, cat(w0, slc(enc, 0, n))))

    def nothing_written(c, old, a, exc=None):
        return z3.And(c.eq(z(c.ghost["wire"]), z(old.ghost["wire"])), z(c.ghost["tx_calls"]) == z(old.ghost["tx_calls"]))

    def havoc_tx(c, a, old, k):
        c.ghost["wire"] = c.fresh("bytes", "wire")
        c.ghost["tx_calls"] = c.fresh("int", "tx_calls")
        c.ghost["draws"] = c.fresh("int", "draws")
    MOD_TX = ["ghost:wire", "ghost:tx_calls", "ghost:draws"]

    # ---- send ---------------------------------------------------------------------------------
    def payload_bytes(a):
        p = a["payload"]
        return z(p) if tag_of(p) == "bytes" else smt.utf8_enc(z(p))

    def send_cases():
        def mk(pk):
            return lambda c: dict(self=mk_ws(c), payload=c.fresh(pk, "payload"), opcode=c.fresh("int", "opcode"))
        return [(pk, mk(pk)) for pk in ("bytes", "bytearray", "str")]

    def send_req(c, a):
        # a str payload is only meaningful for text frames (it is encoded); other opcodes take bytes
        return True if tag_of(a["payload"]) == "bytes" else z(a["opcode"]) == 1

    def bad_opcode(c, old, a):
        return z3.Or(z3.Not(spec.known_opcode(z(a["opcode"]))), slen(payload_bytes(a)) >= 2 ** 63)
    e.add(Contract(K + "WebSocket.send", cases=send_cases(), requires=send_req,
                   ensures=lambda c, old, a, res: z3.And(z3.Not(bad_opcode(c, old, a)), wire_grows_by(c, old, a, z(a["opcode"]), payload_bytes(a)),
                                                         z(res) == slen(sent_frame(c, old, z(a["opcode"]), payload_bytes(a)))),
                   result=lambda c, a: c.fresh("int", "nsent"),
                   raises=[(UnicodeEncodeError, lambda c, old, a: z3.BoolVal(tag_of(a["payload"]) == "str"), nothing_written),
                           (ValueError, bad_opcode, nothing_written)] +
                          [(cls, None, lambda c, old, a, exc: partial(c, old, a, z(a["opcode"]), payload_bytes(a))) for cls in TRANSPORT_EXC],
                   modifies=lambda c, a: MOD_TX, havoc=havoc_tx, props=("C01", "C07", "C08", "C12"),
                   doc="one masked FIN frame with the requested opcode and the payload (text str as UTF-8); returns the frame length"))

    # ---- ping / pong --------------------------------------------------------------------------
    def pp_cases():
        def mk(pk):
            return lambda c: dict(self=mk_ws(c), payload=c.fresh(pk, "payload"))
        return [(pk, mk(pk)) for pk in ("bytes", "str")]
    for name, op in (("ping", 9), ("pong", 10)):
        e.add(Contract(K + f"WebSocket.{name}", cases=pp_cases(),
                       ensures=lambda c, old, a, res, op=op: z3.And(slen(payload_bytes(a)) < 2 ** 63, wire_grows_by(c, old, a, op, payload_bytes(a))),
                       raises=[(UnicodeEncodeError, lambda c, old, a: z3.BoolVal(tag_of(a["payload"]) == "str"), nothing_written),
                               (ValueError, lambda c, old, a: slen(payload_bytes(a)) >= 2 ** 63, nothing_written)] +
                              [(cls, None, lambda c, old, a, exc, op=op: partial(c, old, a, op, payload_bytes(a))) for cls in TRANSPORT_EXC],
                       modifies=lambda c, a: MOD_TX, havoc=havoc_tx, props=("C01", "C07"),
                       doc=f"exactly one {name} frame (opcode {op}) carrying the payload (str as UTF-8)"))

    # ---- send_close ---------------------------------------------------------------------------
    def close_payload(a):
        return cat(spec.be_bytes(z(a["status"], "int"), 2), z(a["reason"]))

    def sc_case(c):
        return dict(self=mk_ws(c), status=c.fresh("int", "status"), reason=c.fresh("bytes", "reason"))

    def bad_status(c, old, a):
        return z3.Or(z(a["status"]) < 0, z(a["status"]) >= 65536)

    def sc_havoc(c, a, old, k):
        havoc_tx(c, a, old, k)
        if k != 1:
            c.setf(a["self"], "connected", False)
    e.add(Contract(K + "WebSocket.send_close", cases=[("bytes", sc_case)],
                   ensures=lambda c, old, a, res: z3.And(z3.Not(bad_status(c, old, a)), wire_grows_by(c, old, a, 8, close_payload(a)),
                                                         z3.Not(z(c.getf(a["self"], "connected"), "bool"))),
                   raises=[(ValueError, lambda c, old, a: z3.Or(bad_status(c, old, a), slen(close_payload(a)) >= 2 ** 63),
                            lambda c, old, a, exc: z3.And(nothing_written(c, old, a),
                                                          z3.Implies(bad_status(c, old, a), z(c.getf(a["self"], "connected"), "bool") == z(old.getf(a["self"], "connected"), "bool"))))] +
                          [(cls, None, lambda c, old, a, exc: z3.And(partial(c, old, a, 8, close_payload(a)), z3.Not(z(c.getf(a["self"], "connected"), "bool"))))
                           for cls in TRANSPORT_EXC],
                   modifies=lambda c, a: MOD_TX + [(a["self"], "connected")], havoc=sc_havoc, props=("C01", "C08"),
                   doc="out-of-range status: ValueError before anything is written; else connected' = False and one close frame "
                       "with payload be16(status) ++ reason"))


def install_lock_discipline(e):
    """Lock-invariant obligations (DESIGN 5 C12).  `lock` owns the wire: on a normal release inside send_frame every byte
    of the frame in progress must have been accepted (the wire is a concatenation of whole frames); `frame_buffer.lock`
    owns the frame in progress: on a normal release inside recv_frame the stage flags are cleared."""
    def release(c, m, node, exceptional):
        if exceptional or not c.frames:
            return
        fr = c.frames[-1]
        if fr.qual == "WebSocket.send_frame" and m.attrs.get("name") == "lock":
            if "data" not in fr.locals:
                from pyvc.ctx import Undecided
                raise Undecided("send_frame no longer has a local `data` (lock invariant is stated over it)")
            c.prove("lock.release.I_send(no partial frame on the wire)", slen(z(fr.locals["data"])) == 0, node)
        if fr.qual == "frame_buffer.recv_frame":
            fb = fr.locals.get("self")
            if fb is not None:
                c.prove("lock.release.I_frame(stage cleared)", z3.And(zn(c.getf(fb, "header")), zn(c.getf(fb, "length")),
                                                                      zn(c.getf(fb, "mask_value"))), node)
    e.lock_hooks["release"] = release


# ===================================================================== C08: closing handshake / connection state machine
def ghost_close(c):
    if "auto_close" not in c.ghost:
        c.ghost["auto_close"] = c.fresh("int", "auto_close")
        c.ghost["clock"] = c.fresh("real", "clock")


def WSI(c, ws, view=None):
    """Object invariant of WebSocket (DESIGN 5 C08): no transport => not connected; at most one close frame written on the
    client's own initiative (close() or the reply to the server's close), and once it is written the object is unconnected."""
    v = view or c
    ac = z(v.ghost["auto_close"])
    conn = z(v.getf(ws, "connected"), "bool")
    return z3.And(z3.Implies(zn(v.getf(ws, "sock")), z3.Not(conn)), ac >= 0, ac <= 1, z3.Implies(ac == 1, z3.Not(conn)))


def install_close(e):
    import time as _time
    from .recv import FB, CF, fb_shape, ghost_msg, havoc_rx, RECV_EXC

    def clock_res(c, a):
        t0 = z(c.ghost["clock"], "real") if "clock" in c.ghost else None
        t = c.fresh("real", "now")
        if t0 is not None:
            c.assume(t.t >= t0)
        c.ghost["clock"] = t
        return t
    e.add(Contract("time:time", assumed=True, result=clock_res, havoc=lambda c, a, old, k: None,
                   doc="time.time(): non-decreasing ghost clock"))

    def mono_res(c, a):
        t0 = z(c.ghost["mono_clock"], "real") if "mono_clock" in c.ghost else None
        t = c.fresh("real", "monotonic_now")
        if t0 is not None:
            c.assume(t.t >= t0)
        c.ghost["mono_clock"] = t
        return t
    e.add(Contract("time:monotonic", assumed=True, result=mono_res, havoc=lambda c, a, old, k: None,
                   doc="time.monotonic(): a second non-decreasing clock with an origin unrelated to time.time() (the tree does not call it; "
                       "modelled so that a change mixing the two clocks is decided rather than left undecided)"))
    e.add(Contract("ext:sock.shutdown", assumed=True, havoc=lambda c, a, old, k: None, raises=[(OSError, None, None)],
                   doc="sock.shutdown(how): may raise OSError; does not release the handle"))

    # ---- shutdown ---------------------------------------------------------------------------------
    def sd_case(c):
        ws = mk_ws(c)
        ghost_close(c)
        return dict(self=ws)

    def sd_post(c, old, a, res):
        ws = a["self"]
        had = z3.Not(zn(old.getf(ws, "sock")))
        return z3.And(zn(c.getf(ws, "sock")),
                      z(c.getf(ws, "connected"), "bool") == z3.And(z3.Not(had), z(old.getf(ws, "connected"), "bool")),
                      z(c.ghost["closed_handles"]) == z(old.ghost["closed_handles"]) + z3.If(had, 1, 0))

    def sd_havoc(c, a, old, k):
        ws = a["self"]
        had = z3.Not(zn(old.getf(ws, "sock")))
        oc = old.getf(ws, "connected")
        c.setf(ws, "sock", None)
        c.setf(ws, "connected", SV("bool", z3.And(z3.Not(had), z(oc, "bool"))) if not isinstance(oc, bool) or oc else False)
        c.ghost["closed_handles"] = SV("int", z(old.ghost["closed_handles"]) + z3.If(had, 1, 0))
    e.add(Contract(K + "WebSocket.shutdown", cases=[("any", sd_case)], ensures=sd_post, havoc=sd_havoc,
                   modifies=lambda c, a: [(a["self"], "sock"), (a["self"], "connected"), "ghost:closed_handles"], props=("C08", "C14", "C15"),
                   doc="sock' = None; the handle is closed iff there was one; connected' = False (when there was a transport)"))

    # ---- close --------------------------------------------------------------------------------------
    def close_case(c):
        ws = mk_ws(c, recv_state="any", keysrc="bytes")
        ghost_close(c)
        ghost_msg(c)
        return dict(self=ws, status=c.fresh("int", "status"), reason=c.fresh("bytes", "reason"),
                    timeout=c.fresh(("opt", "real"), "timeout"))

    def bad_status(a):
        return z3.Or(z(a["status"]) < 0, z(a["status"]) >= 65536)

    def close_req(c, a):
        ws = a["self"]
        return z3.And(WSI(c, ws), FB(c, c.getf(ws, "frame_buffer")), slen(z(a["reason"])) < 2 ** 62)

    def close_frame(c, old, a):
        d0 = z(old.ghost["draws"])
        return spec.rfc_encode(1, 0, 0, 0, 8, 1, spec.keyfn(d0), cat(spec.be_bytes(z(a["status"], "int"), 2), z(a["reason"])))

    def close_post(c, old, a, res):
        ws = a["self"]
        conn0 = z(old.getf(ws, "connected"), "bool")
        w0, w1 = z(old.ghost["wire"]), z(c.ghost["wire"])
        enc = close_frame(c, old, a)
        n = slen(w1) - slen(w0)
        had = z3.Not(zn(old.getf(ws, "sock")))
        return z3.And(
            z3.Not(z3.And(conn0, bad_status(a))),
            # the transport is released and the object unconnected, whatever happened in between
            zn(c.getf(ws, "sock")), z3.Not(z(c.getf(ws, "connected"), "bool")),
            z(c.ghost["closed_handles"]) == z(old.ghost["closed_handles"]) + z3.If(had, 1, 0),
            # not connected: nothing is written; connected: at most the one close frame (a prefix of it if the write failed)
            z3.Implies(z3.Not(conn0), z3.And(c.eq(w1, w0), z(c.ghost["auto_close"]) == z(old.ghost["auto_close"]))),
            z3.Implies(conn0, z3.And(n >= 0, n <= slen(enc))),
            z3.Implies(conn0, c.eq(w1, cat(w0, slc(enc, 0, n)))),
            z3.Implies(conn0, z3.And(z(c.ghost["auto_close"]) <= z(old.ghost["auto_close"]) + 1,
                                     z(c.ghost["auto_close"]) >= z(old.ghost["auto_close"]),
                                     z3.Implies(n == slen(enc), z(c.ghost["auto_close"]) == z(old.ghost["auto_close"]) + 1))),
            WSI(c, ws))

    def close_val(c, old, a, exc):
        ws = a["self"]
        return z3.And(c.eq(z(c.ghost["wire"]), z(old.ghost["wire"])), z(c.ghost["tx_calls"]) == z(old.ghost["tx_calls"]),
                      z(c.getf(ws, "connected"), "bool") == z(old.getf(ws, "connected"), "bool"),
                      z(c.ghost["auto_close"]) == z(old.ghost["auto_close"]))

    def after_send_in_close(c, fr, r):
        if "auto_close" in c.ghost:
            c.ghost["auto_close"] = SV("int", z(c.ghost["auto_close"]) + 1)
    e.after_call[("WebSocket.close", "send")] = after_send_in_close

    def clock_read_in_close(c, fr, r):
        # ghost: clock readings of close(): the first one is the start of the wait, the latest one of this loop iteration is
        # the reading the deadline test was made on
        c.ghost.setdefault("$close_first_read", r)
        c.ghost["$close_iter_read"] = r
    e.after_call[("WebSocket.close", "time")] = clock_read_in_close

    def wait_only_before_deadline(c, fr, args):
        """ghost assertion where close() starts to wait for another frame: a clock reading taken in this iteration is still inside
        the caller's timeout, counted from the first reading (or no timeout was given).  Together with the socket timeout set
        before the loop (entry check) this is the safety rendering of "close() returns within its timeout": no new wait is
        started once the deadline has passed."""
        t = fr.locals.get("timeout")
        if t is None or unopt(t) is None:
            return
        first, cur = c.ghost.get("$close_first_read"), c.ghost.get("$close_iter_read")
        if first is None or cur is None:
            goal = zn(t)
        else:
            goal = z3.Or(zn(t), z(cur, "real") - z(first, "real") < z(unopt(t), "real"))
        c.prove("close.wait-only-before-deadline", goal, c.last_call_node)
    e.before_call[("WebSocket.close", "recv_frame")] = wait_only_before_deadline

    GH = ["rpos", "rx_calls", "fstart", "lastf", "clock"]

    def close_loop_inv(c, fr, entry):
        ws = fr.locals["self"]
        return z3.And(FB(c, c.getf(ws, "frame_buffer")), z3.Not(z(c.getf(ws, "connected"), "bool")))

    def close_loop_havoc(c, fr, entry):
        c.ghost.pop("$close_iter_read", None)  # an arbitrary iteration starts without a clock reading of its own
        ws = fr.locals["self"]
        fb = c.getf(ws, "frame_buffer")
        sh = fb_shape(False)[2]
        c.setf(fb, "recv_buffer", c.fresh(("rope",), "recv_buffer"))
        for f in ("header", "length", "mask_value"):
            c.setf(fb, f, c.fresh(sh[f], f))
        for g in GH:
            c.ghost[g] = c.fresh("real" if g == "clock" else "int", g)
    def close_wait_bounded(c, fr):
        """structural part of 'close() returns within its timeout': every read of the wait loop is made with the transport's
        timeout set to the caller's `timeout`."""
        ws = fr.locals["self"]
        sk = unopt(c.getf(ws, "sock"))
        if not isinstance(sk, Ext) or "timeout" not in sk.attrs:
            return z3.BoolVal(False)
        r = e.interp.same_value(c, sk.attrs["timeout"], fr.locals["timeout"])
        return z3.BoolVal(r) if isinstance(r, bool) else r
    e.loop("WebSocket.close", 0, inv=close_loop_inv, havoc=close_loop_havoc, shapes={"frame": ("const", None), "recv_status": "int"},
           keep=("frame",), entry_check=close_wait_bounded,
           modifies=lambda c, fr: [(c.getf(fr.locals["self"], "frame_buffer"), f) for f in ("recv_buffer", "header", "length", "mask_value")])

    def close_havoc(c, a, old, k):
        ws = a["self"]
        for g in ("wire", "tx_calls", "draws", "rpos", "rx_calls", "fstart", "lastf", "closed_handles", "auto_close"):
            if g in c.ghost:
                c.ghost[g] = c.fresh("bytes" if g == "wire" else "int", g)
        if k == 0:
            c.setf(ws, "sock", None)
            c.setf(ws, "connected", False)
            close_loop_havoc(c, type("F", (), {"locals": {"self": ws}})(), None)
    e.add(Contract(K + "WebSocket.close", cases=[("any", close_case)], requires=close_req, ensures=close_post,
                   raises=[(ValueError, lambda c, old, a: z3.And(z(old.getf(a["self"], "connected"), "bool"), bad_status(a)), close_val)],
                   modifies=lambda c, a: [(a["self"], "sock"), (a["self"], "connected")] +
                                         [(c.getf(a["self"], "frame_buffer"), f) for f in ("recv_buffer", "header", "length", "mask_value")] +
                                         ["ghost:" + g for g in ("wire", "tx_calls", "draws", "rpos", "rx_calls", "fstart", "lastf", "closed_handles", "auto_close", "clock")],
                   havoc=close_havoc, props=("C08", "C01", "C14"),
                   doc="not connected: writes nothing; out-of-range status (while connected): ValueError before anything is written; otherwise "
                       "at most one close frame rfc_encode(FIN, CLOSE, key, be16(status) ++ reason) (a prefix if the write fails), the wait loop "
                       "writes nothing, and in every case the transport is released (sock' = None, handle closed, connected' = False); "
                       "no exception escapes"))


def install_init(e):
    W = core_mod.WebSocket

    def init_case(mt):
        def case(c):
            ghost_conn(c)
            ws = c.alloc("obj", W, {})
            d = dict(self=ws, fire_cont_frame=c.fresh("bool", "fire"), skip_utf8_validation=c.fresh("bool", "skip"),
                     get_mask_key=c.fresh(("oneof", [("ext", "keysource"), ("ext", "keysource_str"), "none"]), "keysrc"))
            if not mt:
                d["enable_multithread"] = False  # the default configuration leaves the parameter to its declared default
            return d
        return case

    def is_lock(v):
        return isinstance(v, Ext) and v.kind == "Lock"

    def init_post(c, old, a, res):
        ws = a["self"]
        fb, cf = c.getf(ws, "frame_buffer"), c.getf(ws, "cont_frame")
        mt = a.get("enable_multithread", True)
        locks_ok = (is_lock(c.getf(ws, "lock")) and is_lock(c.getf(ws, "readlock")) and c.getf(ws, "lock") is not c.getf(ws, "readlock")) \
            if mt else True
        same = lambda x, y: (lambda r: z3.BoolVal(r) if isinstance(r, bool) else r)(e.interp.same_value(c, x, y))
        # the options reach the objects that act on them: the key source (C01), per-fragment delivery (C04) and the validation
        # switch of both the frame parser and the reassembler (C06)
        wired = z3.And(z3.BoolVal(c.getf(ws, "get_mask_key") is a.get("get_mask_key")),
                       same(c.getf(fb, "skip_utf8_validation"), a["skip_utf8_validation"]),
                       same(c.getf(cf, "skip_utf8_validation"), a["skip_utf8_validation"]),
                       same(c.getf(cf, "fire_cont_frame"), a["fire_cont_frame"]),
                       z3.BoolVal(c.getf(ws, "dispatcher") is None))
        return z3.And(zn(c.getf(ws, "sock")), z3.Not(z(c.getf(ws, "connected"), "bool")), z3.BoolVal(locks_ok), wired,
                      z3.BoolVal(is_lock(c.getf(fb, "lock"))),
                      zn(c.getf(fb, "header")), zn(c.getf(fb, "length")), zn(c.getf(fb, "mask_value")),
                      z3.BoolVal(c.cell(c.getf(fb, "recv_buffer")).data == []),
                      zn(c.getf(cf, "cont_data")), zn(c.getf(cf, "recving_frames")))
    e.add(Contract(K + "WebSocket.__init__", cases=[("multithread-default", init_case(True)), ("no-locks", init_case(False))],
                   ensures=init_post, inline_at_calls=True, modifies=lambda c, a: [a["self"]], props=("C08", "C12"),
                   doc="a new WebSocket has no transport, is unconnected, has an empty parser / reassembly state and, in the default "
                       "configuration (enable_multithread=True), distinct real locks for sending and receiving; the options get_mask_key, "
                       "fire_cont_frame and skip_utf8_validation reach the connection, the reassembler and both validators"))

    def abort_case(c):
        ws = mk_ws(c)
        return dict(self=ws)
    e.add(Contract(K + "WebSocket.abort", cases=[("any", abort_case)], raises=[(OSError, None, None), (AttributeError, lambda c, old, a: zn(old.getf(a["self"], "sock")), None)],
                   props=("C08",), doc="abort(): shuts the socket down for reading/writing when connected; changes no library state"))
