"""Contracts added in the coverage-extension phase (DESIGN 10.9): public wrappers and option plumbing that no verified function
calls, so that a change inside them was invisible to the per-function proofs:

  WebSocket.send_binary / send_text / send_bytes / set_mask_key / settimeout / gettimeout      (C01, C08/C09 timeouts)
  proxy_info.__init__                                                                            (C19: options -> proxy decision inputs)
  DispatcherBase.send / WrappedDispatcher.send and WebSocket._send with real dispatcher objects (C08, C12)
  WebSocketApp.send / send_text / send_bytes / close                                            (C13-C15)
"""
import z3
from pyvc import smt
from pyvc.engine import Contract
from pyvc.values import SV, Ref, Ext, ExcVal, OptV, z, zn, unopt, tag_of
from pyvc.smt import slen
import websocket._exceptions as X
import websocket._core as core_mod
import websocket._http as http_mod
from .core import mk_ws, ghost_conn, K, SK, TRANSPORT_EXC

H = "websocket._http:"


def _b(x):
    return z3.BoolVal(x) if isinstance(x, bool) else x


def install(e):
    install_send_wrappers(e)
    install_timeouts(e)
    install_proxy_info(e)
    install_dispatcher_send(e)
    install_select(e)
    install_app_api(e)
    install_app_init(e)


# ===================================================================== C01: the convenience senders
def install_send_wrappers(e):
    sendc = e.contracts[K + "WebSocket.send"]

    def delegate(pname, opcode):
        """contract of a wrapper `return self.send(<pname>, <opcode>)`: exactly send's contract for that opcode."""
        def amap(a):
            return dict(self=a["self"], payload=a[pname], opcode=opcode)
        raises = []
        for (cls, when, post) in sendc.raises:
            raises.append((cls, (lambda c, old, a, when=when: when(c, old, amap(a))) if when else None,
                           (lambda c, old, a, exc, post=post: post(c, old, amap(a), exc)) if post else None))
        return dict(ensures=lambda c, old, a, res: sendc.ensures(c, old, amap(a), res) if isinstance(res, SV) else z3.BoolVal(False), raises=raises,
                    result=sendc.result, modifies=lambda c, a: sendc.modifies(c, amap(a)),
                    havoc=lambda c, a, old, k: sendc.havoc(c, amap(a), old, k))

    def case(pname, shape):
        return lambda c: {"self": mk_ws(c), pname: c.fresh(shape, pname)}
    for name, pname, opcode, shapes, what in (
            ("send_binary", "payload", 2, ("bytes", "bytearray"), "one masked FIN binary frame (opcode 2) with the payload"),
            ("send_bytes", "data", 2, ("bytes", "bytearray"), "one masked FIN binary frame (opcode 2) with the data"),
            ("send_text", "text_data", 1, ("str",), "one masked FIN text frame (opcode 1) with the UTF-8 encoding of the text")):
        e.add(Contract(K + f"WebSocket.{name}", cases=[(sh, case(pname, sh)) for sh in shapes], props=("C01",),
                       doc=what + "; returns the number of frame bytes written (the contract of send() for that opcode)", **delegate(pname, opcode)))

    # ---- set_mask_key: the key source of every later frame -------------------------------------------------------
    def smk_case(kind):
        def mk_case(c):
            ws = mk_ws(c)
            return dict(self=ws, func=c.new_ext(kind) if kind else None)
        return mk_case
    e.add(Contract(K + "WebSocket.set_mask_key", cases=[("bytes-source", smk_case("keysource")), ("str-source", smk_case("keysource_str")), ("reset", smk_case(None))],
                   ensures=lambda c, old, a, res: z3.BoolVal(c.getf(a["self"], "get_mask_key") is a["func"]),
                   modifies=lambda c, a: [(a["self"], "get_mask_key")], props=("C01",),
                   doc="the callable becomes the connection's key source (send_frame's contract: every later frame draws its key from it)"))


# ===================================================================== timeouts (C08 close(), C09/C17 handshake under the caller's timeout)
def install_timeouts(e):
    def st_case(c):
        ws = mk_ws(c)
        return dict(self=ws, timeout=c.fresh(("opt!", "real"), "timeout"))

    def st_post(c, old, a, res):
        ws = a["self"]
        so = c.getf(ws, "sock_opt")
        conds = [_b(e.interp.same_value(c, c.getf(so, "timeout"), a["timeout"]))]
        sk = c.force(old.getf(ws, "sock"))
        if isinstance(sk, Ext):
            conds.append(z3.BoolVal("timeout" in sk.attrs))
            if "timeout" in sk.attrs:
                conds.append(_b(e.interp.same_value(c, sk.attrs["timeout"], a["timeout"])))
        return z3.And(*conds)
    old_ct = e.contracts.get(K + "WebSocket.settimeout")
    e.add(Contract(K + "WebSocket.settimeout", cases=[("any", st_case)], ensures=st_post,
                   havoc=old_ct.havoc if old_ct else None, modifies=lambda c, a: [(c.getf(a["self"], "sock_opt"), "timeout")],
                   props=("C08", "C09", "C17"),
                   doc="the value is remembered in sock_opt.timeout (used for the connection set-up and the handshake) and applied to the open "
                       "transport, if there is one"))

    def gt_case(c):
        return dict(self=mk_ws(c))
    e.add(Contract(K + "WebSocket.gettimeout", cases=[("any", gt_case)],
                   ensures=lambda c, old, a, res: _b(e.interp.same_value(c, res, old.getf(old.getf(a["self"], "sock_opt"), "timeout"))),
                   result=lambda c, a: c.getf(c.getf(a["self"], "sock_opt"), "timeout"), inline_at_calls=True, props=("C08",),
                   doc="returns sock_opt.timeout"))


# ===================================================================== C19: options -> inputs of the proxy decision
def install_proxy_info(e):
    KEYS = ("http_proxy_host", "http_proxy_port", "http_proxy_auth", "http_no_proxy", "proxy_type", "http_proxy_timeout")

    def pi_case(has_host, has_np, ptype):
        def case(c):
            opts = {}
            if has_host:
                opts["http_proxy_host"] = (True, c.fresh("str", "proxy_host"))
                opts["http_proxy_port"] = (True, c.fresh("int", "proxy_port"))
                opts["http_proxy_auth"] = (True, (c.fresh("str", "user"), c.fresh("str", "password")))
                opts["http_proxy_timeout"] = (True, c.fresh("real", "proxy_timeout"))
            if has_np:
                opts["http_no_proxy"] = (True, c.alloc("list", None, [c.fresh("str", "np0"), c.fresh("str", "np1")]))
            if ptype is not None:
                opts["proxy_type"] = (True, ptype)
            obj = c.alloc("obj", http_mod.proxy_info, {})
            return dict(self=obj, options=c.alloc("dict", None, opts))
        return case

    def opt(c, a, key, default=None):
        ent = c.cell(a["options"]).data.get(key)
        return ent[1] if ent is not None else default

    def host_given(c, a):
        h = opt(c, a, "http_proxy_host")
        return z3.BoolVal(False) if h is None else z3.Length(z(h)) > 0

    def bad_type(c, old, a):
        t = opt(c, a, "proxy_type", "http")
        return z3.And(host_given(c, a), z3.BoolVal(t not in ("http", "socks4", "socks4a", "socks5", "socks5h")))

    def pi_post(c, old, a, res):
        o = a["self"]
        same = lambda x, y: _b(e.interp.same_value(c, x, y))
        has = lambda f: c.hasf(o, f)
        hg = host_given(c, a)
        # every field the connection set-up reads exists on every path
        conds = [z3.BoolVal(all(has(f) for f in ("proxy_host", "proxy_port", "auth", "no_proxy", "proxy_protocol")))]
        if not all(has(f) for f in ("proxy_host", "proxy_port", "auth", "no_proxy", "proxy_protocol")):
            return z3.BoolVal(False)
        # the no_proxy option is an input of the exemption decision whether the proxy itself comes from the options or from the
        # environment ("exempt exactly when the no_proxy option (else the environment) lists ...")
        conds.append(same(c.getf(o, "no_proxy"), opt(c, a, "http_no_proxy")))
        conds.append(same(c.getf(o, "proxy_host"), opt(c, a, "http_proxy_host")))
        conds.append(z3.Not(bad_type(c, old, a)))
        if opt(c, a, "http_proxy_host") is not None:
            conds.append(z3.Implies(hg, z3.And(same(c.getf(o, "proxy_port"), opt(c, a, "http_proxy_port", 0)),
                                               same(c.getf(o, "auth"), opt(c, a, "http_proxy_auth")),
                                               z3.BoolVal(c.getf(o, "proxy_protocol") == opt(c, a, "proxy_type", "http")))))
        return z3.And(*conds)
    cases = [(f"host={'given' if h else 'absent'},no_proxy={'given' if n else 'absent'},type={t or 'default'}", pi_case(h, n, t))
             for h in (True, False) for n in (True, False) for t in (None, "http", "socks5", "ftp")]
    e.add(Contract(H + "proxy_info.__init__", cases=cases, ensures=pi_post, inline_at_calls=True,
                   raises=[(http_mod.ProxyError, bad_type, None)], modifies=lambda c, a: [a["self"]], props=("C19",),
                   doc="the proxy decision's inputs are the caller's options: proxy_host / port / auth / type as given, and no_proxy = the "
                       "http_no_proxy option whether or not a proxy host is given by option (the proxy may come from the environment); an "
                       "unsupported proxy type is refused with ProxyError"))


# ===================================================================== C08 / C12: sending through the installed dispatcher object
def install_dispatcher_send(e):
    import websocket._dispatcher as disp_mod
    import websocket._socket as sock_mod
    from .core import appended
    from pyvc.smt import cat
    D = "websocket._dispatcher:"
    ssend = e.contracts[SK + "send"]

    # ---- DispatcherBase.send(sock, data) = _socket.send(sock, data) ------------------------------------------------
    def db_case(sk):
        def case(c):
            ghost_conn(c)
            disp = c.alloc("obj", disp_mod.Dispatcher, dict(app=None, ping_timeout=c.fresh("real", "select_timeout")))
            return dict(self=disp, sock=c.new_ext("sock") if sk == "open" else None, data=c.fresh("bytes", "data"))
        return case
    amap = lambda a: dict(sock=a["sock"], data=a["data"])
    e.add(Contract(D + "DispatcherBase.send", cases=[("open", db_case("open")), ("none", db_case("none"))],
                   ensures=lambda c, old, a, res: ssend.ensures(c, old, amap(a), res),
                   result=ssend.result, havoc=lambda c, a, old, k: ssend.havoc(c, amap(a), old, k),
                   modifies=lambda c, a: ssend.modifies(c, amap(a)),
                   normal_when=lambda c, old, a: ssend.normal_when(c, old, amap(a)),
                   raises=[(cls, (lambda c, old, a, w=w: w(c, old, amap(a))) if w else None,
                            (lambda c, old, a, exc, p_=p_: p_(c, old, amap(a), exc)) if p_ else None) for (cls, w, p_) in ssend.raises],
                   props=("C08", "C12"),
                   doc="the built-in dispatchers write through _socket.send: the result is the number of bytes the transport accepted "
                       "(send_frame's resend loop relies on it), no socket => connection-closed without touching a transport"))

    # ---- external event loop (rel-like): assumed ---------------------------------------------------------------
    def bw_havoc(c, a, old, k):
        args = a["$args"]
        a["self"].attrs.setdefault("buffwrites", []).append(tuple(args))
        d = z(args[1])
        w1 = c.fresh("bytes", "wire")
        c.assume(c.eq(w1.t, cat(z(c.ghost["wire"]), d)))
        c.ghost["wire"] = w1
        c.ghost["tx_calls"] = SV("int", z(c.ghost["tx_calls"]) + 1)
    e.add(Contract("ext:rel.buffwrite", assumed=True, havoc=bw_havoc,
                   doc="external dispatcher buffwrite(sock, data, send, on_error): queues data and transmits all of it, in order (assumed)"))

    def wd_case(sk):
        def case(c):
            ghost_conn(c)
            disp = c.alloc("obj", disp_mod.WrappedDispatcher, dict(app=None, ping_timeout=c.fresh(("opt", "real"), "select_timeout"),
                                                                    dispatcher=c.new_ext("rel"), handleDisconnect=c.new_ext("callback")))
            return dict(self=disp, sock=c.new_ext("sock") if sk == "open" else None, data=c.fresh("bytes", "data"))
        return case

    def wd_post(c, old, a, res):
        rel = c.getf(a["self"], "dispatcher")
        calls = rel.attrs.get("buffwrites", [])
        w0, w1, d = z(old.ghost["wire"]), z(c.ghost["wire"]), z(a["data"])
        handed = len(calls) == 1 and calls[0][0] is a["sock"] and calls[0][1] is a["data"] and calls[0][2] is sock_mod.send \
            and calls[0][3] is c.getf(a["self"], "handleDisconnect")
        return z3.And(z3.BoolVal(a["sock"] is not None), z3.BoolVal(isinstance(res, SV)) if not isinstance(res, SV) else z(res) == slen(d),
                      c.eq(w1, cat(w0, d)), z3.BoolVal(bool(handed)) if c.mode == "prove" else z3.BoolVal(True))

    def wd_closed(c, old, a, exc):
        rel = c.getf(a["self"], "dispatcher")
        untouched = not rel.attrs.get("buffwrites") if c.mode == "prove" else True
        return z3.And(c.eq(z(c.ghost["wire"]), z(old.ghost["wire"])), z(c.ghost["tx_calls"]) == z(old.ghost["tx_calls"]), z3.BoolVal(bool(untouched)))

    def wd_havoc(c, a, old, k):
        c.ghost["wire"] = c.fresh("bytes", "wire")
        c.ghost["tx_calls"] = c.fresh("int", "tx_calls")
    e.add(Contract(D + "WrappedDispatcher.send", cases=[("open", wd_case("open")), ("none", wd_case("none"))],
                   ensures=wd_post, result=lambda c, a: c.fresh("int", "queued"), havoc=wd_havoc,
                   modifies=lambda c, a: ["ghost:wire", "ghost:tx_calls"],
                   normal_when=lambda c, old, a: z3.BoolVal(a["sock"] is not None),
                   raises=[(X.WebSocketConnectionClosedException, lambda c, old, a: z3.BoolVal(a["sock"] is None), wd_closed)],
                   props=("C08", "C12"),
                   doc="with a transport: the data is handed once to the external loop's buffwrite (with _socket.send as the writer and the "
                       "disconnect handler) and its full length is reported; without one: connection-closed, nothing is queued"))


# ===================================================================== C13 / C16: what the select loops wait for, and for how long
def install_select(e):
    import websocket._dispatcher as disp_mod
    import websocket._app as app_mod
    from .app import mk_app
    D = "websocket._dispatcher:"

    def after_pending(c, fr, r):
        c.ghost["$pending"] = r

    def before_wait(c, fr, args):
        """ghost assertion at the blocking wait of SSLDispatcher.select: the TLS layer's buffer was consulted first and is empty
        (frames already decrypted are delivered without waiting for further traffic - C13), and the wait is bounded by the
        dispatcher's own timeout (the period of the liveness check - C16, scheduling assumption S1)."""
        pend = c.ghost.pop("$pending", None)
        c.prove("select.no-wait-while-bytes-pending", z3.BoolVal(False) if pend is None else z(pend) == 0, None)
        wait_is_ping_timeout(c, fr, args)

    def wait_is_ping_timeout(c, fr, args):
        me = fr.locals.get("self")
        ok = bool(args) and me is not None and e.interp.same_value(c, args[0], c.getf(me, "ping_timeout"))
        c.prove("select.wait-is-the-dispatcher-timeout", _b(ok), None)
    e.after_call[("SSLDispatcher.select", "pending")] = after_pending
    e.before_call[("SSLDispatcher.select", "select")] = before_wait
    e.before_call[("Dispatcher.read", "select")] = wait_is_ping_timeout

    def sel_case(c):
        app = mk_app(c, sock="opt")
        disp = c.alloc("obj", disp_mod.SSLDispatcher, dict(app=app, ping_timeout=c.fresh("real", "select_timeout")))
        return dict(self=disp, sock=None, sel=c.new_ext("selector"))

    def sel_req(c, a):
        from .app import has_transport, APPINV
        app = c.getf(a["self"], "app")
        return z3.And(APPINV(c, app), has_transport(c, app))

    def sel_post(c, old, a, res):
        # truthy exactly when bytes are pending in the TLS layer or the selector reported readiness
        from pyvc.interp import truth
        t = truth(c, res)
        t = z3.BoolVal(t) if isinstance(t, bool) else t
        ready = c.ghost.get("$ready")
        if ready is None:   # returned without waiting: only because decrypted bytes were pending
            return t
        return t == z3.BoolVal(len(ready) > 0)
    e.after_call[("SSLDispatcher.select", "select")] = lambda c, fr, r: c.ghost.__setitem__("$ready", r)
    e.add(Contract(D + "SSLDispatcher.select", cases=[("any", sel_case)], requires=sel_req, ensures=sel_post, inline_at_calls=True,
                   props=("C13", "C16"),
                   doc="readiness test of the TLS select loop: pending decrypted bytes are reported at once; only when there are none does "
                       "it wait on the selector, for at most the dispatcher's timeout (ghost assertions select.no-wait-while-bytes-pending, "
                       "select.wait-is-the-dispatcher-timeout)"))


# ===================================================================== C13-C15: the application's own send / close
def install_app_api(e):
    from .app import mk_app, has_transport, APPINV, app_ws_inv
    P = "websocket._app:"
    sendc = e.contracts[K + "WebSocket.send"]

    # ---- WebSocketApp.close(**kwargs) ----------------------------------------------------------------------------
    def cl_case(c):
        app = mk_app(c, sock="opt")
        return dict(self=app, kwargs=c.alloc("dict", None, {}))

    def cl_req(c, a):
        return APPINV(c, a["self"])

    def cl_post(c, old, a, res):
        app = a["self"]
        had = has_transport(c, app, old)
        return z3.And(z3.Not(z(c.getf(app, "keep_running"), "bool")), zn(c.getf(app, "sock")),
                      z(c.ghost["closed_handles"]) == z(old.ghost["closed_handles"]) + z3.If(had, 1, 0))

    def stopped_before_closing(c, fr, args):
        """ghost assertion where close() starts the closing handshake: the run has already been told to stop.  The loop thread may
        be woken by the socket being closed under it at any moment after this point; it treats what it sees as the orderly end of
        the run only if keep_running is already False (C14: close() from another thread at any moment)."""
        app = fr.locals["self"]
        c.prove("close.keep_running-cleared-before-the-socket-is-closed", z3.Not(z(c.getf(app, "keep_running"), "bool")), c.last_call_node)
    e.before_call[("WebSocketApp.close", "close")] = stopped_before_closing

    def cl_mods(c, a):
        app = a["self"]
        from .app import app_ws
        ws = app_ws.get(app.id)  # the connection object the app had at entry (sock is None afterwards)
        closec = e.contracts[K + "WebSocket.close"]
        inner = closec.modifies(c, dict(self=ws)) if isinstance(ws, Ref) else []
        return [(app, "keep_running"), (app, "sock")] + inner
    e.add(Contract(P + "WebSocketApp.close", cases=[("any", cl_case)], requires=cl_req, ensures=cl_post, modifies=cl_mods, inline_at_calls=True,
                   props=("C14", "C15"),
                   doc="the run is told to stop (keep_running' = False) before the closing handshake starts; the connection, if any, is "
                       "closed (its transport released) and dropped (sock' = None); no exception escapes"))

    # ---- WebSocketApp.send / send_text / send_bytes --------------------------------------------------------------
    def snd_case(pname, shape, with_op):
        def case(c):
            app = mk_app(c, sock="opt")
            d = {"self": app, pname: c.fresh(shape, pname)}
            if with_op:
                d["opcode"] = c.fresh("int", "opcode")
            return d
        return case

    def amap(c, view, a, pname, opcode):
        return dict(self=unopt(view.getf(a["self"], "sock")), payload=a[pname], opcode=a["opcode"] if opcode is None else opcode)

    def snd_contract(name, pname, shapes, opcode):
        no_conn = lambda c, old, a: zn(old.getf(a["self"], "sock"))

        def post(c, old, a, res):
            m = amap(c, old, a, pname, opcode)
            return z3.And(z3.Not(no_conn(c, old, a)), sendc.ensures(c, old, m, c.ghost.get("$app_send_result")) if c.mode == "prove" and
                          isinstance(c.ghost.get("$app_send_result"), SV) else z3.BoolVal(c.mode != "prove"))

        def closed_post(c, old, a, exc):
            # no connection: nothing is written
            return z3.Implies(no_conn(c, old, a), z3.And(c.eq(z(c.ghost["wire"]), z(old.ghost["wire"])), z(c.ghost["tx_calls"]) == z(old.ghost["tx_calls"])))
        raises = [(X.WebSocketConnectionClosedException, None, closed_post)]
        for (cls, when, p_) in sendc.raises:
            if cls is X.WebSocketConnectionClosedException:
                continue
            raises.append((cls, (lambda c, old, a, when=when: z3.And(z3.Not(no_conn(c, old, a)), when(c, old, amap(c, old, a, pname, opcode)))) if when
                           else (lambda c, old, a: z3.Not(no_conn(c, old, a))),
                           (lambda c, old, a, exc, p_=p_: p_(c, old, amap(c, old, a, pname, opcode), exc)) if p_ else None))
        req = (lambda c, a: z3.And(APPINV(c, a["self"]), _b(True if tag_of(a[pname]) == "bytes" else z(a["opcode"]) == 1))) if opcode is None \
            else (lambda c, a: APPINV(c, a["self"]))
        e.add(Contract(P + f"WebSocketApp.{name}", cases=[(sh, snd_case(pname, sh, opcode is None)) for sh in shapes],
                       requires=req, ensures=post, raises=raises,
                       modifies=lambda c, a: ["ghost:wire", "ghost:tx_calls", "ghost:draws"], inline_at_calls=True, props=("C13",),
                       doc="no connection: WebSocketConnectionClosedException, nothing written; otherwise exactly the frame WebSocket.send writes "
                           "for that payload and opcode (text str as UTF-8)"))
        e.after_call[(f"WebSocketApp.{name}", "send")] = lambda c, fr, r: c.ghost.__setitem__("$app_send_result", r)
    snd_contract("send", "data", ("bytes", "str"), None)
    snd_contract("send_text", "text_data", ("str",), 1)
    snd_contract("send_bytes", "data", ("bytes", "bytearray"), 2)


# ===================================================================== C13 / C14: what a new WebSocketApp looks like; which dispatcher runs it
def install_app_init(e):
    import websocket._app as app_mod
    import websocket._dispatcher as disp_mod
    P = "websocket._app:"
    CBS = ("on_open", "on_reconnect", "on_message", "on_data", "on_error", "on_close", "on_ping", "on_pong", "on_cont_message")

    def ai_case(c):
        app = c.alloc("obj", app_mod.WebSocketApp, {})
        d = dict(self=app, url=c.fresh("str", "url"), cookie=c.fresh("str", "cookie"), get_mask_key=c.new_ext("keysource"), socket=c.new_ext("sock"))
        for n in CBS:
            # every subset of callbacks being set: each one is there or not, independently (decided lazily)
            d[n] = c.fresh(("opt!", ("ext", "callback")), n)
        return d

    def ai_post(c, old, a, res):
        app = a["self"]
        has = all(c.hasf(app, f) for f in CBS + ("url", "cookie", "get_mask_key", "prepared_socket", "keep_running", "sock", "has_errored",
                                                  "has_done_teardown", "ping_thread", "stop_ping", "last_ping_tm", "last_pong_tm"))
        if not has:
            return z3.BoolVal(False)
        same = lambda x, y: _b(e.interp.same_value(c, x, y))
        conds = [z3.BoolVal(c.getf(app, n) is a[n]) for n in CBS]  # each callback is stored under its own name
        conds += [same(c.getf(app, "url"), a["url"]), same(c.getf(app, "cookie"), a["cookie"]), z3.BoolVal(c.getf(app, "get_mask_key") is a["get_mask_key"]),
                  z3.BoolVal(c.getf(app, "prepared_socket") is a["socket"]),
                  # a new application object is not running, has no connection, no ping thread and a clean record
                  z3.BoolVal(c.getf(app, "keep_running") is False), z3.BoolVal(c.getf(app, "sock") is None),
                  z3.BoolVal(c.getf(app, "has_errored") is False), z3.BoolVal(c.getf(app, "has_done_teardown") is False),
                  z3.BoolVal(c.getf(app, "ping_thread") is None), z3.BoolVal(c.getf(app, "stop_ping") is None)]
        return z3.And(*conds)
    e.add(Contract(P + "WebSocketApp.__init__", cases=[("any", ai_case)], ensures=ai_post, inline_at_calls=True,
                   modifies=lambda c, a: [a["self"]], props=("C13", "C14"),
                   doc="every callback is stored under its own name (each subset of callbacks), url / cookie / key source / prepared socket as "
                       "given; the new object is not running, has no connection, no ping thread and no error or teardown on record - the "
                       "state run_forever's contract starts from"))

    # ---- create_dispatcher(ping_timeout, dispatcher, is_ssl, handleDisconnect) -------------------------------------
    def cd_case(ext, ssl_):
        def case(c):
            app = c.alloc("obj", app_mod.WebSocketApp, {})
            return dict(self=app, ping_timeout=c.fresh(("opt", "real"), "ping_timeout"), dispatcher=c.new_ext("rel", abort=c.new_ext("callback")) if ext else None,
                        is_ssl=ssl_, handleDisconnect=c.new_ext("callback"))
        return case

    def cd_post(c, old, a, res):
        if not isinstance(res, Ref) or res.kind != "obj":
            return z3.BoolVal(False)
        cls = c.cell(res).cls
        pt = a["ping_timeout"]
        same = lambda x, y: _b(e.interp.same_value(c, x, y))
        if a["dispatcher"] is not None:
            # an external event loop is wrapped, with the run's own disconnect handler and the caller's ping timeout
            return z3.And(z3.BoolVal(cls is disp_mod.WrappedDispatcher), z3.BoolVal(c.getf(res, "app") is a["self"]),
                          z3.BoolVal(c.getf(res, "dispatcher") is a["dispatcher"]), z3.BoolVal(c.getf(res, "handleDisconnect") is a["handleDisconnect"]),
                          same(c.getf(res, "ping_timeout"), pt))
        want = disp_mod.SSLDispatcher if a["is_ssl"] else disp_mod.Dispatcher
        got = c.getf(res, "ping_timeout")
        ptv = z(unopt(pt), "real")
        use_default = z3.Or(zn(pt), ptv == 0)
        # the select loop wakes up at least every ping_timeout seconds (10 s when none is set): the period of the liveness check (C16)
        period = z3.And(z3.Implies(use_default, z(got, "real") == 10) if isinstance(got, SV) else z3.BoolVal(False),
                        z3.Implies(z3.Not(use_default), z(got, "real") == ptv) if isinstance(got, SV) else z3.BoolVal(False))
        if not isinstance(got, SV):
            period = z3.And(z3.Implies(use_default, _b(e.interp.same_value(c, got, 10))), z3.Implies(z3.Not(use_default), same(got, pt)))
        return z3.And(z3.BoolVal(cls is want), z3.BoolVal(c.getf(res, "app") is a["self"]), period)
    e.add(Contract(P + "WebSocketApp.create_dispatcher",
                   cases=[(f"{'external' if x else 'builtin'},{'tls' if t else 'plain'}", cd_case(x, t)) for x in (False, True) for t in (False, True)],
                   ensures=cd_post, inline_at_calls=True, props=("C13", "C16"),
                   doc="an external dispatcher is wrapped (with the run's disconnect handler); otherwise SSLDispatcher exactly for a TLS connection, "
                       "Dispatcher for a plain one, waking up every ping_timeout seconds (10 when none is set)"))
