"""Contracts for websocket/_http.py and websocket/_handshake.py (C09, C10, C11, C17, C18, C19, C20 parts)."""
import socket as _socket
import z3
from pyvc import smt
from pyvc import models as _M
from pyvc import engine as _E
from pyvc.engine import Contract
from pyvc.ctx import Undecided
from pyvc.values import SV, Ref, Ext, ExcVal, OptV, SymSeq, z, zn, unopt, tag_of
from pyvc.smt import S, Int, Sq, slen, at, slc, cat
from . import spec
from .recv import ghost_rx, havoc_rx, RECV_EXC, rpos_same
import websocket._exceptions as X
import websocket._http as http_mod
import websocket._handshake as hs_mod

H = "websocket._http:"
HS = "websocket._handshake:"
LF = 10


def new_symmap(c, hint="headers"):
    return c.alloc("dict", None, {"$map": smt.fresh(z3.ArraySort(S, S), hint + ".map"), "$dom": smt.fresh(z3.ArraySort(S, smt.Bool), hint + ".dom")})


def hget(c, ref, key, view=None):
    """(present, value term) of an abstract header map."""
    d = (view or c).cell(ref).data
    k = z3.StringVal(key) if isinstance(key, str) else key
    return z3.Select(d["$dom"], k), z3.Select(d["$map"], k)


def blank(line):
    """the decoded, stripped line is empty (end of the response head)."""
    return z3.Length(_M.str_strip(smt.utf8_dec(line))) == 0


def install(e):
    install_read_headers(e)
    install_handshake(e)


def install_read_headers(e):
    def rh_case(c):
        ghost_rx(c)
        c.ghost["$line_start"] = c.ghost["rpos"]
        return dict(sock=c.new_ext("sock"))

    def after_recv_line(c, fr, r):
        pass

    def before_line(c, fr, r):
        c.ghost["$line_start"] = c.ghost["$rpos_before_line"]
    # ghost: start offset of the line just read (recv_line consumes exactly one line)
    base_rl = e.contracts["websocket._socket:recv_line"]
    base_havoc = base_rl.havoc

    def rl_havoc(c, a, old, k):
        c.ghost["$line_start"] = old.ghost["rpos"]
        base_havoc(c, a, old, k)
    base_rl.havoc = rl_havoc

    def rh_post(c, old, a, res):
        rx, r0, r1 = z(old.ghost["rx"]), z(old.ghost["rpos"]), z(c.ghost["rpos"])
        ls = z(c.ghost["$line_start"])
        status, headers, msg = res
        return z3.And(r0 <= ls, ls < r1, at(rx, r1 - 1) == LF,
                      # the last line consumed is the blank line that ends the head; nothing after it has been read
                      blank(slc(rx, ls, r1)),
                      spec.forall_range(ls, r1 - 1, lambda k: at(rx, k) != LF, pats=lambda k: [at(rx, k)]),
                      z3.BoolVal(isinstance(headers, Ref)))

    def rh_inv(c, fr, entry):
        rx, r0, r1 = z(entry.ghost["rx"]), z(entry.ghost["rpos"]), z(c.ghost["rpos"])
        return z3.And(r0 <= r1, r1 <= slen(rx), z3.Or(r1 == r0, z(c.ghost["$line_start"]) < r1), r0 <= z(c.ghost["$line_start"]))

    def rh_loop_havoc(c, fr, entry):
        havoc_rx(c)
        c.ghost["$line_start"] = c.fresh("int", "line_start")
        h = fr.locals["headers"]
        cell = c.cell(h)
        cell.data = {"$map": smt.fresh(z3.ArraySort(S, S), "headers.map"), "$dom": smt.fresh(z3.ArraySort(S, smt.Bool), "headers.dom")}
    e.loop("read_headers", 0, inv=rh_inv, havoc=rh_loop_havoc,
           shapes={"status": ("opt", "int"), "status_message": ("opt", "str"), "line": "str", "status_info": ("const", None), "kv": ("const", None),
                   "key": "str", "value": "str"},
           decreases=lambda c, fr: slen(z(c.ghost["rx"])) - z(c.ghost["rpos"]),
           modifies=lambda c, fr: [fr.locals["headers"]])

    def rh_result(c, a):
        return (c.fresh(("opt", "int"), "status"), new_symmap(c), c.fresh(("opt", "str"), "status_message"))

    def rh_havoc(c, a, old, k):
        havoc_rx(c)
        c.ghost["$line_start"] = c.fresh("int", "line_start")
    e.add(Contract(H + "read_headers", cases=[("open", rh_case)], ensures=rh_post, result=rh_result, havoc=rh_havoc,
                   raises=[(cls, None, None) for cls in RECV_EXC] + [(X.WebSocketException, None, None)],
                   modifies=lambda c, a: ["ghost:rpos", "ghost:rx_calls", "ghost:$line_start"], props=("C03", "C09", "C17", "C19", "C20"),
                   doc="reads the response head line by line (one byte per transport request) up to and including the first blank line and not "
                       "a byte further; malformed heads (not UTF-8, no status code, bad header line) raise WebSocketException; only "
                       "documented exception classes escape; every iteration consumes at least one byte (decreases)"))


GUID = "258EAFA5-E914-47DA-95CA-C5AB0DC85B11"
sha1 = z3.Function("sha1", Sq, Sq)
has_token = z3.Function("has_token", S, S, smt.Bool)  # v is one of the comma separated, trimmed, case-folded tokens of r


def accept_of(e, key_term):
    """Sec-WebSocket-Accept derived from a key: base64(sha1(key + GUID)), as bytes after strip()."""
    return _M.bytes_strip(e.b64(sha1(smt.utf8_enc(z3.Concat(key_term, z3.StringVal(GUID))))))


class TokList:
    """[x.strip().lower() for x in r.split(',')]: only membership is used."""

    def __init__(self, r):
        self.r = r


def install_handshake(e):
    import websocket._handshake as hs
    REDIR = tuple(int(x) for x in hs.SUPPORTED_REDIRECT_STATUSES)
    SUCC = tuple(int(x) for x in hs.SUCCESS_STATUSES)

    def in_set(t, vals):
        return z3.Or(*[t == v for v in vals])

    # ---- hashing helpers (assumed: uninterpreted functions) -----------------------------------------
    def sha1_new(c, a):
        return c.new_ext("sha1obj", data=a["$args"][0])
    for k in ("_hashlib:openssl_sha1", "hashlib:sha1", "_sha1:sha1"):
        e.add(Contract(k, assumed=True, result=sha1_new, havoc=lambda c, a, old, k_: None))
    e.add(Contract("ext:sha1obj.digest", assumed=True, result=lambda c, a: SV("bytes", sha1(z(a["self"].attrs["data"]))), havoc=lambda c, a, old, k_: None,
                   doc="hashlib.sha1(x).digest(): an uninterpreted function of x"))

    def cmp_digest(c, a):
        x, y = a["$args"]
        if tag_of(x) != tag_of(y):
            from pyvc.interp import py_exc
            raise py_exc(TypeError, "compare_digest of different types")
        return SV("bool", z(x) == z(y))
    for k in ("_operator:_compare_digest", "_hashlib:compare_digest", "hmac:compare_digest"):
        e.add(Contract(k, assumed=True, result=cmp_digest, havoc=lambda c, a, old, k_: None, doc="hmac.compare_digest(a, b) <=> a == b"))

    # ---- token lists in _validate -------------------------------------------------------------------
    def tok_hook(c, interp, node):
        from .url import ast_src
        src = ast_src(node)
        if ".strip().lower()" in src and ".split(',')" in src.replace('"', "'"):
            r = c.frames[-1].locals.get("r")
            if tag_of(r) == "str":
                return ("$toklist", z(r))
        return None
    e.comprehension_hooks.setdefault("_validate", []).append(tok_hook)
    base_contains = e.models.contains

    def contains(c, container, x, node):
        if isinstance(container, tuple) and len(container) == 2 and container[0] == "$toklist":
            return has_token(container[1], z(x))
        return base_contains(c, container, x, node)
    e.models.contains = contains

    # ---- _validate(headers, key, subprotocols) --------------------------------------------------------
    def val_case(nsub):
        def case(c):
            hd = new_symmap(c)
            subs = None if nsub == 0 else c.alloc("list", None, [c.fresh("str", f"sub{i}") for i in range(nsub)])
            return dict(headers=hd, key=c.fresh("str", "key"), subprotocols=subs)
        return case

    def val_req(c, a):
        p, v = hget(c, a["headers"], "sec-websocket-accept")
        return z3.And(_M.utf8_encodable(v), _M.utf8_encodable(z3.Concat(z(a["key"]), z3.StringVal(GUID))))

    def valid_spec(c, a, view=None):
        hd = a["headers"]
        up_p, up = hget(c, hd, "upgrade", view)
        co_p, co = hget(c, hd, "connection", view)
        ac_p, ac = hget(c, hd, "sec-websocket-accept", view)
        pr_p, pr = hget(c, hd, "sec-websocket-protocol", view)
        conds = [up_p, z3.Length(up) > 0, has_token(up, z3.StringVal("websocket")), co_p, z3.Length(co) > 0, has_token(co, z3.StringVal("upgrade")),
                 ac_p, z3.Length(ac) > 0, smt.utf8_enc(ac) == accept_of(e, z(a["key"]))]
        subs = a["subprotocols"]
        if subs is not None and c.cell(subs).data:
            items = c.cell(subs).data
            conds += [pr_p, z3.Length(pr) > 0, z3.Or(*[_M.str_lower(pr) == _M.str_lower(z(s_)) for s_ in items])]
        return z3.And(*conds), pr

    def val_post(c, old, a, res):
        ok, subp = res
        spec_ok, pr = valid_spec(c, a, old)
        subs = a["subprotocols"]
        has_subs = subs is not None and bool(c.cell(subs).data)
        sub_ok = (z3.And(z3.Not(zn(subp)), z(unopt(subp)) == _M.str_lower(pr)) if unopt(subp) is not None else z3.BoolVal(False)) if has_subs else zn(subp)
        return z3.And(z(ok, "bool") == spec_ok, z3.Implies(z(ok, "bool"), sub_ok), z3.Implies(z3.Not(z(ok, "bool")), zn(subp)))
    e.add(Contract(HS + "_validate", cases=[("no-subprotocols", val_case(0)), ("one-subprotocol", val_case(1)), ("two-subprotocols", val_case(2))],
                   requires=val_req, ensures=val_post, result=lambda c, a: (c.fresh("bool", "valid"), c.fresh(("opt", "str"), "subproto")),
                   havoc=lambda c, a, old, k: None, props=("C09", "C17"),
                   doc="(True, subprotocol) exactly when Upgrade lists the token websocket, Connection lists upgrade (comma separated, trimmed, "
                       "case-insensitive), the offered subprotocols (if any) contain the selected one case-insensitively, and "
                       "Sec-WebSocket-Accept equals base64(sha1(key + GUID)) for the key given; otherwise (False, None)"))

    # ---- _get_resp_headers(sock, success_statuses) ------------------------------------------------------
    def grh_case(c):
        ghost_rx(c)
        return dict(sock=c.new_ext("sock"))

    def grh_post(c, old, a, res):
        status, hd = res
        return z3.And(z3.Not(zn(status)), in_set(z(unopt(status), "int"), SUCC) if unopt(status) is not None else z3.BoolVal(False))

    def grh_havoc(c, a, old, k):
        havoc_rx(c)
        c.ghost["$line_start"] = c.fresh("int", "line_start")
    TRANSPORT_RAW = [_socket.timeout, OSError]
    e.add(Contract(HS + "_get_resp_headers", cases=[("open", grh_case)], ensures=grh_post,
                   result=lambda c, a: (c.fresh(("opt", "int"), "status"), new_symmap(c)), havoc=grh_havoc,
                   raises=[(X.WebSocketBadStatusException, None, None), (X.WebSocketException, None, None)] + [(k_, None, None) for k_ in RECV_EXC + TRANSPORT_RAW],
                   modifies=lambda c, a: ["ghost:rpos", "ghost:rx_calls", "ghost:$line_start"], props=("C09", "C17"),
                   doc="returns only for a status in {101, 301, 302, 303, 307, 308}; any other status raises WebSocketBadStatusException after "
                       "reading at most min(Content-Length, 16384) bytes of the body (never a peer-declared amount); no internal error escapes"))
