"""Contracts for websocket/_http.py and websocket/_handshake.py (C09, C10, C11, C17, C18, C19, C20 parts)."""
import socket as _socket
import z3
from pyvc import smt
from pyvc import models as _M
from pyvc import engine as _E
from pyvc.engine import Contract
from pyvc.ctx import Undecided
from pyvc.values import SV, Ref, Ext, ExcVal, OptV, SymSeq, z, zn, unopt, tag_of
from pyvc.smt import S, Int, Sq, slen, at, slc, cat
from . import spec
from .recv import ghost_rx, havoc_rx, RECV_EXC, rpos_same
import websocket._exceptions as X
import websocket._http as http_mod
import websocket._handshake as hs_mod

H = "websocket._http:"
HS = "websocket._handshake:"
LF = 10


def new_symmap(c, hint="headers"):
    return c.alloc("dict", None, {"$map": smt.fresh(z3.ArraySort(S, S), hint + ".map"), "$dom": smt.fresh(z3.ArraySort(S, smt.Bool), hint + ".dom")})


def hget(c, ref, key, view=None):
    """(present, value term) of an abstract header map."""
    d = (view or c).cell(ref).data
    k = z3.StringVal(key) if isinstance(key, str) else key
    return z3.Select(d["$dom"], k), z3.Select(d["$map"], k)


def blank(line):
    """the decoded, stripped line is empty (end of the response head)."""
    return z3.Length(_M.str_strip(smt.utf8_dec(line))) == 0


def install(e):
    install_read_headers(e)
    install_handshake(e)
    install_request(e)
    install_handshake2(e)
    install_connect(e)


def install_read_headers(e):
    def rh_case(c):
        ghost_rx(c)
        c.ghost["$line_start"] = c.ghost["rpos"]
        return dict(sock=c.new_ext("sock"))

    def after_recv_line(c, fr, r):
        pass

    def before_line(c, fr, r):
        c.ghost["$line_start"] = c.ghost["$rpos_before_line"]
    # ghost: start offset of the line just read (recv_line consumes exactly one line)
    base_rl = e.contracts["websocket._socket:recv_line"]
    base_havoc = base_rl.havoc

    def rl_havoc(c, a, old, k):
        c.ghost["$line_start"] = old.ghost["rpos"]
        base_havoc(c, a, old, k)
    base_rl.havoc = rl_havoc

    # ---- ghost fold of the header lines (C20, C09): the dict returned is hstep folded over the header lines read -------
    SC = z3.StringVal("set-cookie")

    def hstep(H, line):
        """effect of one header line `name: value` on the header map: key lower-cased, value stripped; a repeated Set-Cookie
        is appended to the earlier one with "; " (so that every cookie of the response reaches the jar)."""
        m, d = H
        i = z3.IndexOf(line, z3.StringVal(":"), 0)
        key = _M.str_lower(z3.SubString(line, 0, i))
        val = _M.str_strip(z3.SubString(line, i + 1, z3.Length(line) - i - 1))
        prev = z3.Select(m, SC)
        join = z3.And(key == SC, z3.Select(d, SC), z3.Length(prev) > 0)
        return (z3.Store(m, key, z3.If(join, z3.Concat(prev, z3.StringVal("; "), val), val)), z3.Store(d, key, z3.BoolVal(True)))

    def after_header_split(c, fr, r):
        node = getattr(c, "last_call_node", None)
        if node is None or "$H" not in c.ghost or not (node.args and getattr(node.args[0], "value", None) == ":"):
            return
        c.ghost["$H"] = hstep(c.ghost["$H"], z(fr.locals["line"]))
    e.after_call[("read_headers", "split")] = after_header_split

    def same_map(c, headers_ref):
        H = c.ghost.get("$H")
        if H is None:
            return z3.BoolVal(True)
        data = c.cell(headers_ref).data
        if "$map" in data:
            return z3.And(data["$map"] == H[0], data["$dom"] == H[1])
        return z3.BoolVal(len(data) == 0 and H[2:] == ("empty",))

    def rh_ghost_entry(c, a):
        c.ghost["$H"] = (z3.K(S, z3.StringVal("")), z3.K(S, z3.BoolVal(False)), "empty")

    def rh_post(c, old, a, res):
        rx, r0, r1 = z(old.ghost["rx"]), z(old.ghost["rpos"]), z(c.ghost["rpos"])
        ls = z(c.ghost["$line_start"])
        status, headers, msg = res
        if c.mode != "assume" and isinstance(headers, Ref) and "$H" in c.ghost:
            return z3.And(rh_post_base(c, old, a, res), same_map(c, headers))
        return rh_post_base(c, old, a, res)

    def rh_post_base(c, old, a, res):
        rx, r0, r1 = z(old.ghost["rx"]), z(old.ghost["rpos"]), z(c.ghost["rpos"])
        ls = z(c.ghost["$line_start"])
        status, headers, msg = res
        return z3.And(r0 <= ls, ls < r1, at(rx, r1 - 1) == LF,
                      # the last line consumed is the blank line that ends the head; nothing after it has been read
                      blank(slc(rx, ls, r1)),
                      spec.forall_range(ls, r1 - 1, lambda k: at(rx, k) != LF, pats=lambda k: [at(rx, k)]),
                      z3.BoolVal(isinstance(headers, Ref)))

    def rh_inv(c, fr, entry):
        rx, r0, r1 = z(entry.ghost["rx"]), z(entry.ghost["rpos"]), z(c.ghost["rpos"])
        return z3.And(r0 <= r1, r1 <= slen(rx), z3.Or(r1 == r0, z(c.ghost["$line_start"]) < r1), r0 <= z(c.ghost["$line_start"]),
                      same_map(c, fr.locals["headers"]))

    def rh_loop_havoc(c, fr, entry):
        havoc_rx(c)
        c.ghost["$line_start"] = c.fresh("int", "line_start")
        h = fr.locals["headers"]
        cell = c.cell(h)
        cell.data = {"$map": smt.fresh(z3.ArraySort(S, S), "headers.map"), "$dom": smt.fresh(z3.ArraySort(S, smt.Bool), "headers.dom")}
        if "$H" in c.ghost:
            c.ghost["$H"] = (smt.fresh(z3.ArraySort(S, S), "H.map"), smt.fresh(z3.ArraySort(S, smt.Bool), "H.dom"))
    e.loop("read_headers", 0, inv=rh_inv, havoc=rh_loop_havoc,
           shapes={"status": ("opt", "int"), "status_message": ("opt", "str"), "line": "str", "status_info": ("const", None), "kv": ("const", None),
                   "key": "str", "value": "str"},
           decreases=lambda c, fr: slen(z(c.ghost["rx"])) - z(c.ghost["rpos"]),
           modifies=lambda c, fr: [fr.locals["headers"]])

    def rh_result(c, a):
        return (c.fresh(("opt", "int"), "status"), new_symmap(c), c.fresh(("opt", "str"), "status_message"))

    def rh_havoc(c, a, old, k):
        havoc_rx(c)
        c.ghost["$line_start"] = c.fresh("int", "line_start")
    e.add(Contract(H + "read_headers", cases=[("open", rh_case)], ensures=rh_post, result=rh_result, havoc=rh_havoc, ghost_entry=rh_ghost_entry,
                   raises=[(cls, None, None) for cls in RECV_EXC] + [(X.WebSocketException, None, None)],
                   modifies=lambda c, a: ["ghost:rpos", "ghost:rx_calls", "ghost:$line_start"], props=("C03", "C09", "C17", "C19", "C20"),
                   doc="reads the response head line by line (one byte per transport request) up to and including the first blank line and not "
                       "a byte further; malformed heads (not UTF-8, no status code, bad header line) raise WebSocketException; only "
                       "documented exception classes escape; every iteration consumes at least one byte (decreases)"))


GUID = "258EAFA5-E914-47DA-95CA-C5AB0DC85B11"
sha1 = z3.Function("sha1", Sq, Sq)
has_token = z3.Function("has_token", S, S, smt.Bool)  # v is one of the comma separated, trimmed, case-folded tokens of r


def accept_of(e, key_term):
    """Sec-WebSocket-Accept derived from a key: base64(sha1(key + GUID)), as bytes after strip()."""
    return _M.bytes_strip(e.b64(sha1(smt.utf8_enc(z3.Concat(key_term, z3.StringVal(GUID))))))


class TokList:
    """[x.strip().lower() for x in r.split(',')]: only membership is used."""

    def __init__(self, r):
        self.r = r


def install_handshake(e):
    import websocket._handshake as hs
    REDIR = tuple(int(x) for x in hs.SUPPORTED_REDIRECT_STATUSES)
    SUCC = tuple(int(x) for x in hs.SUCCESS_STATUSES)

    def in_set(t, vals):
        return z3.Or(*[t == v for v in vals])

    # ---- hashing helpers (assumed: uninterpreted functions) -----------------------------------------
    def sha1_new(c, a):
        return c.new_ext("sha1obj", data=a["$args"][0])
    for k in ("_hashlib:openssl_sha1", "hashlib:sha1", "_sha1:sha1"):
        e.add(Contract(k, assumed=True, result=sha1_new, havoc=lambda c, a, old, k_: None))
    e.add(Contract("ext:sha1obj.digest", assumed=True, result=lambda c, a: SV("bytes", sha1(z(a["self"].attrs["data"]))), havoc=lambda c, a, old, k_: None,
                   doc="hashlib.sha1(x).digest(): an uninterpreted function of x"))

    def cmp_digest(c, a):
        x, y = a["$args"]
        if tag_of(x) != tag_of(y):
            from pyvc.interp import py_exc
            raise py_exc(TypeError, "compare_digest of different types")
        return SV("bool", z(x) == z(y))
    for k in ("_operator:_compare_digest", "_hashlib:compare_digest", "hmac:compare_digest"):
        e.add(Contract(k, assumed=True, result=cmp_digest, havoc=lambda c, a, old, k_: None, doc="hmac.compare_digest(a, b) <=> a == b"))

    # ---- token lists in _validate -------------------------------------------------------------------
    def tok_hook(c, interp, node):
        from .url import ast_src
        src = ast_src(node)
        if ".strip().lower()" in src and ".split(',')" in src.replace('"', "'"):
            r = c.frames[-1].locals.get("r")
            if tag_of(r) == "str":
                return ("$toklist", z(r))
        return None
    e.comprehension_hooks.setdefault("_validate", []).append(tok_hook)
    base_contains = e.models.contains

    def contains(c, container, x, node):
        if isinstance(container, tuple) and len(container) == 2 and container[0] == "$toklist":
            return has_token(container[1], z(x))
        return base_contains(c, container, x, node)
    e.models.contains = contains

    # ---- _validate(headers, key, subprotocols) --------------------------------------------------------
    def val_case(nsub):
        def case(c):
            hd = new_symmap(c)
            subs = None if nsub == 0 else c.alloc("list", None, [c.fresh("str", f"sub{i}") for i in range(nsub)])
            return dict(headers=hd, key=c.fresh("str", "key"), subprotocols=subs)
        return case

    def val_req(c, a):
        p, v = hget(c, a["headers"], "sec-websocket-accept")
        return z3.And(_M.utf8_encodable(v), _M.utf8_encodable(z3.Concat(z(a["key"]), z3.StringVal(GUID))))

    def valid_spec(c, a, view=None):
        hd = a["headers"]
        up_p, up = hget(c, hd, "upgrade", view)
        co_p, co = hget(c, hd, "connection", view)
        ac_p, ac = hget(c, hd, "sec-websocket-accept", view)
        pr_p, pr = hget(c, hd, "sec-websocket-protocol", view)
        conds = [up_p, z3.Length(up) > 0, has_token(up, z3.StringVal("websocket")), co_p, z3.Length(co) > 0, has_token(co, z3.StringVal("upgrade")),
                 ac_p, z3.Length(ac) > 0, smt.utf8_enc(ac) == accept_of(e, z(a["key"]))]
        subs = a["subprotocols"]
        if subs is not None and c.cell(subs).data:
            items = c.cell(subs).data
            conds += [pr_p, z3.Length(pr) > 0, z3.Or(*[_M.str_lower(pr) == _M.str_lower(z(s_)) for s_ in items])]
        return z3.And(*conds), pr

    install_handshake2.valid_spec = lambda c, a, view=None: valid_spec(c, a, view)

    def val_post(c, old, a, res):
        ok, subp = res
        spec_ok, pr = valid_spec(c, a, old)
        subs = a["subprotocols"]
        has_subs = subs is not None and bool(c.cell(subs).data)
        sub_ok = (z3.And(z3.Not(zn(subp)), z(unopt(subp)) == _M.str_lower(pr)) if unopt(subp) is not None else z3.BoolVal(False)) if has_subs else zn(subp)
        return z3.And(z(ok, "bool") == spec_ok, z3.Implies(z(ok, "bool"), sub_ok), z3.Implies(z3.Not(z(ok, "bool")), zn(subp)))
    e.add(Contract(HS + "_validate", cases=[("no-subprotocols", val_case(0)), ("one-subprotocol", val_case(1)), ("two-subprotocols", val_case(2))],
                   ensures=val_post, result=lambda c, a: (c.fresh("bool", "valid"), c.fresh(("opt", "str"), "subproto")),
                   raises=[(UnicodeEncodeError, lambda c, old, a: z3.Not(val_req(c, a)), None)],
                   havoc=lambda c, a, old, k: None, props=("C09", "C17"),
                   doc="(True, subprotocol) exactly when Upgrade lists the token websocket, Connection lists upgrade (comma separated, trimmed, "
                       "case-insensitive), the offered subprotocols (if any) contain the selected one case-insensitively, and "
                       "Sec-WebSocket-Accept equals base64(sha1(key + GUID)) for the key given; otherwise (False, None)"))

    # ---- _get_resp_headers(sock, success_statuses) ------------------------------------------------------
    def grh_case(c):
        ghost_rx(c)
        return dict(sock=c.new_ext("sock"))

    def grh_post(c, old, a, res):
        status, hd = res
        return z3.And(z3.Not(zn(status)), in_set(z(unopt(status), "int"), SUCC) if unopt(status) is not None else z3.BoolVal(False))

    def grh_havoc(c, a, old, k):
        havoc_rx(c)
        c.ghost["$line_start"] = c.fresh("int", "line_start")
    TRANSPORT_RAW = [_socket.timeout, OSError]
    e.add(Contract(HS + "_get_resp_headers", cases=[("open", grh_case)], ensures=grh_post,
                   result=lambda c, a: (c.fresh(("opt", "int"), "status"), new_symmap(c)), havoc=grh_havoc,
                   raises=[(X.WebSocketBadStatusException, None, None), (X.WebSocketException, None, None)] + [(k_, None, None) for k_ in RECV_EXC + TRANSPORT_RAW],
                   modifies=lambda c, a: ["ghost:rpos", "ghost:rx_calls", "ghost:$line_start"], props=("C09", "C17"),
                   doc="returns only for a status in {101, 301, 302, 303, 307, 308}; any other status raises WebSocketBadStatusException after "
                       "reading at most min(Content-Length, 16384) bytes of the body (never a peer-declared amount); no internal error escapes"))


# ===================================================================== C10: the opening request
jar_cookie = z3.Function("jar_cookie", S, S)   # ghost: what the process-wide cookie jar returns for a host (its contract: C20)


def install_request(e):
    import websocket._handshake as hs
    from pyvc.interp import mk
    x = z3.Const("x", Sq)
    smt.AXIOMS.append(z3.ForAll([x], smt.wf_utf8(e.b64(x)), patterns=[e.b64(x)]))

    # the process-wide cookie jar as seen from the handshake (its methods are verified under C20)
    def jar_override(c):
        if "$jar" not in c.ghost:
            c.ghost["$jar"] = c.new_ext("cookiejar")
        return c.ghost["$jar"]
    jar_override._is_override = True
    e.global_overrides[("websocket._handshake", "CookieJar")] = jar_override
    e.add(Contract("ext:cookiejar.get", assumed=True, result=lambda c, a: SV("str", jar_cookie(z(a["$args"][0]))), havoc=lambda c, a, old, k: None,
                   doc="CookieJar.get(host): the cookie string of the jar for that host (contract proved on SimpleCookieJar.get, C20)"))

    def jar_add(c, a, old, k):
        c.ghost["jar_adds"] = SV("int", z(c.ghost["jar_adds"]) + 1) if "jar_adds" in c.ghost else 1
        c.ghost["$last_set_cookie"] = a["$args"][0]
    e.add(Contract("ext:cookiejar.add", assumed=True, havoc=jar_add, doc="CookieJar.add(set_cookie): one update of the jar (contract: C20)"))

    # ---- _create_sec_websocket_key ---------------------------------------------------------------
    def key_of_draw(d):
        return _M.str_strip(smt.utf8_dec(e.b64(spec.keyfn(d))))

    def ck_case(c):
        c.ghost["draws"] = c.fresh("int", "draws")
        c.assume(z(c.ghost["draws"]) >= 0)
        return dict()

    def ck_post(c, old, a, res):
        d0 = z(old.ghost["draws"])
        return z3.And(z(c.ghost["draws"]) == d0 + 1, slen(spec.keyfn(d0)) == 16, z(res) == key_of_draw(d0), spec.srcfn(d0) == 0)

    def ck_havoc(c, a, old, k):
        c.ghost["draws"] = c.fresh("int", "draws")
    e.add(Contract(HS + "_create_sec_websocket_key", cases=[("any", ck_case)], ensures=ck_post, result=lambda c, a: c.fresh("str", "wskey"),
                   havoc=ck_havoc, modifies=lambda c, a: ["ghost:draws"], props=("C10", "C09"),
                   doc="exactly one draw of 16 bytes from os.urandom; result = base64 of that draw, decoded and stripped"))

    # ---- _get_handshake_headers --------------------------------------------------------------------
    OPT_KEYS = ["host", "origin", "suppress_origin", "connection", "subprotocols", "cookie", "header"]

    def ghh_case(header_kind):
        def case(c):
            c.ghost["draws"] = c.fresh("int", "draws")
            c.assume(z(c.ghost["draws"]) >= 0)
            opts = {}
            group = header_kind.split("+")[1] if "+" in header_kind else "all"
            hk = header_kind.split("+")[0]
            P = lambda n: smt.fresh(smt.Bool, f"has_{n}")
            if group in ("all", "addressing"):
                opts["host"] = (P("host"), c.fresh("str", "opt_host"))
                opts["origin"] = (P("origin"), c.fresh(("opt!", "str"), "opt_origin"))
                opts["suppress_origin"] = (P("suppress_origin"), c.fresh("bool", "opt_suppress"))
            if group in ("all", "negotiation"):
                opts["connection"] = (P("connection"), c.fresh("str", "opt_connection"))
                opts["cookie"] = (P("cookie"), c.fresh("str", "opt_cookie"))
                nsub = c.choose(3)
                if nsub:
                    opts["subprotocols"] = (True, c.alloc("list", None, [c.fresh("str", f"sub{i}") for i in range(nsub)]))
            if group == "everything":
                for k_, sh_ in (("host", "str"), ("origin", "str"), ("connection", "str"), ("cookie", "str")):
                    opts[k_] = (True, c.fresh(sh_, "opt_" + k_))
                opts["suppress_origin"] = (True, c.fresh("bool", "opt_suppress"))
                opts["subprotocols"] = (True, c.alloc("list", None, [c.fresh("str", "sub0"), c.fresh("str", "sub1")]))
            header_kind_ = hk
            if header_kind_ == "list":
                opts["header"] = (True, c.alloc("list", None, [c.fresh("str", "hdr0"), c.fresh("str", "hdr1")]))
            elif header_kind_ == "dict":
                opts["header"] = (True, c.alloc("dict", None, {"X-A": (True, c.fresh("str", "hv0")), "X-None": (True, None)}))
            elif header_kind_ == "dict-own-key":
                opts["header"] = (True, c.alloc("dict", None, {"Sec-WebSocket-Key": (True, c.fresh("str", "ownkey")),
                                                               "Sec-WebSocket-Version": (True, c.fresh("str", "ownver"))}))
            return dict(resource=c.fresh("str", "resource"), url=c.fresh("str", "url"), host=c.fresh("str", "host"), port=c.fresh("int", "port"),
                        options=c.alloc("dict", None, opts))
        return case

    def ghh_req(c, a):
        conds = [z3.Contains(z(a["url"]), z3.StringVal(":"))]
        hd = c.cell(a["options"]).data.get("header")
        if hd is not None and c.cell(hd[1]).kind == "list":
            # entries of a header list are complete header lines ("Name: value")
            conds += [z3.Contains(z(x), z3.StringVal(": ")) for x in c.cell(hd[1]).data]
        return z3.And(*conds)

    def decided(c, f):
        """value of a formula that the path condition decides (request spec is evaluated per path)."""
        if isinstance(f, bool):
            return f
        f = z3.simplify(f)
        if z3.is_true(f):
            return True
        if z3.is_false(f):
            return False
        t, n = c.feasible(f), c.feasible(z3.Not(f))
        if t and not n:
            return True
        if n and not t:
            return False
        return None

    def request_spec(c, old, a, key_term):
        """The request the statement of C10 prescribes, as a list of z3 strings (None if some condition is undecided)."""
        Sv, Cc = z3.StringVal, z3.Concat
        od = old.cell(a["options"]).data
        host, port, url, resource = z(a["host"]), z(a["port"], "int"), z(a["url"]), z(a["resource"])

        def opt(name, truthy=None):
            """(is the option in effect, its value): presence and truthiness are decided together, as the code tests them."""
            ent = od.get(name)
            if ent is None:
                return False, None
            p = ent[0] if ent[0] is not True else z3.BoolVal(True)
            if truthy is not None:
                p = z3.And(p, truthy(ent[1]))
            return decided(c, p), ent[1]
        nonempty = lambda v: z3.Length(z(v)) > 0
        lines = [Cc(Sv("GET "), resource, Sv(" HTTP/1.1")), Sv("Upgrade: websocket")]
        packed = z3.If(z3.Contains(host, Sv(":")), Cc(Sv("["), host, Sv("]")), host)
        hostport = z3.If(z3.Or(port == 80, port == 443), packed, Cc(packed, Sv(":"), z3.If(port >= 0, z3.IntToStr(port), Cc(Sv("-"), z3.IntToStr(-port)))))
        use_host, hv = opt("host", nonempty)
        if use_host is None:
            return None
        lines.append(Cc(Sv("Host: "), z(hv)) if use_host else Cc(Sv("Host: "), hostport))
        sup, sv = opt("suppress_origin", lambda v: z(v, "bool"))
        if sup is None:
            return None
        if not sup:
            op, ov = opt("origin")
            if op is None:
                return None
            if op and ov is not None:
                lines.append(Cc(Sv("Origin: "), z(ov)))
            else:
                scheme = z3.SubString(url, 0, z3.IndexOf(url, Sv(":"), 0))
                lines.append(z3.If(scheme == Sv("wss"), Cc(Sv("Origin: https://"), hostport), Cc(Sv("Origin: http://"), hostport)))
        hdp, hdv = opt("header")
        own_key = own_ver = False
        hdr_items = []
        if hdp:
            cell = old.cell(hdv)
            if cell.kind == "dict":
                own_key, own_ver = "Sec-WebSocket-Key" in cell.data, "Sec-WebSocket-Version" in cell.data
                hdr_items = [Cc(Sv(k + ": "), z(v)) for k, (p_, v) in cell.data.items() if v is not None]
            else:
                hdr_items = [z(v) for v in cell.data]
        if not own_key:
            lines.append(Cc(Sv("Sec-WebSocket-Key: "), key_term))
        if not own_ver:
            lines.append(Sv("Sec-WebSocket-Version: 13"))
        usec, cv = opt("connection", nonempty)
        if usec is None:
            return None
        lines.append(Cc(Sv("Connection: "), z(cv)) if usec else Sv("Connection: Upgrade"))
        sbp, sbv = opt("subprotocols")
        if sbp:
            items = [z(s_) for s_ in old.cell(sbv).data]
            j = items[0]
            for s_ in items[1:]:
                j = Cc(j, Sv(","), s_)
            lines.append(Cc(Sv("Sec-WebSocket-Protocol: "), j))
        lines += hdr_items
        have_client, ckv = opt("cookie", nonempty)
        server_cookie = jar_cookie(host)
        have_server = decided(c, z3.Length(server_cookie) > 0)
        if have_client is None or have_server is None:
            return None
        if have_server and have_client:
            lines.append(Cc(Sv("Cookie: "), server_cookie, Sv("; "), z(ckv)))
        elif have_server:
            lines.append(Cc(Sv("Cookie: "), server_cookie))
        elif have_client:
            lines.append(Cc(Sv("Cookie: "), z(ckv)))
        lines += [Sv(""), Sv("")]
        return lines, own_key, (hdv if hdp else None)

    def ghh_post(c, old, a, res):
        headers, key = res
        d0 = z(old.ghost["draws"])
        got = c.cell(headers).data if isinstance(headers, Ref) else None
        if isinstance(got, SymSeq) and c.mode == "assume":
            # use at a call site: the list is kept abstract there; what callers rely on is the key and the single draw
            od = old.cell(a["options"]).data
            hd = od.get("header")
            own = hd is not None and hd[0] is True and old.cell(hd[1]).kind == "dict" and "Sec-WebSocket-Key" in old.cell(hd[1]).data
            keyc = (z(key) == z(old.cell(hd[1]).data["Sec-WebSocket-Key"][1])) if own else (z(key) == key_of_draw(d0))
            return z3.And(keyc, z(c.ghost["draws"]) == d0 + 1)
        if not isinstance(got, list):
            return z3.BoolVal(False)
        r = request_spec(c, old, a, key_of_draw(d0))
        if r is None:
            return z3.BoolVal(False)
        want, own_key, hdv = r
        if len(want) != len(got):
            return z3.BoolVal(False)
        eqs = [z(g) == w for g, w in zip(got, want)]
        if own_key:
            keyc = z(key) == z(old.cell(hdv).data["Sec-WebSocket-Key"][1])
        else:
            keyc = z(key) == key_of_draw(d0)
        return z3.And(*eqs, keyc, z(c.ghost["draws"]) == d0 + 1)
    e.add(Contract(HS + "_get_handshake_headers",
                   cases=[(f"header-{k}", ghh_case(k)) for k in ("absent+addressing", "absent+negotiation", "list+none", "dict+none", "dict-own-key+none",
                                                                  "list+everything", "dict+everything")],
                   requires=ghh_req, ensures=ghh_post,
                   result=lambda c, a: (c.alloc("list", None, SymSeq(c.fresh("int", "nlines"), lambda c_, i: c_.fresh("str", "line"), "request")), c.fresh("str", "wskey")),
                   havoc=ck_havoc, modifies=lambda c, a: ["ghost:draws"], props=("C10", "C20", "C09"),
                   doc="the request lines are exactly: GET <resource> HTTP/1.1, Upgrade: websocket, Host (option or host[:port], IPv6 in brackets, "
                       "port omitted for 80/443), Origin (suppressed / explicit / http(s)://hostport by scheme), Sec-WebSocket-Key of one fresh "
                       "16-byte draw (unless supplied in a header dict), Sec-WebSocket-Version: 13, Connection: <value> (default Upgrade), "
                       "Sec-WebSocket-Protocol, custom headers (dict entries with None dropped; list verbatim), Cookie (jar cookie then caller's), "
                       "and two empty strings; the returned key is the one in the request"))


def install_handshake2(e):
    """handshake() and WebSocket.connect / create_connection (C09, C10, C17)."""
    import websocket._handshake as hs
    import websocket._core as core_mod
    from .core import mk_ws, ghost_conn, TRANSPORT_EXC
    K = "websocket._core:"
    REDIR = tuple(int(x) for x in hs.SUPPORTED_REDIRECT_STATUSES)
    ghh = e.contracts[HS + "_get_handshake_headers"]
    val = e.contracts[HS + "_validate"]

    def in_set(t, vals):
        return z3.Or(*[t == v for v in vals])

    def hs_case(nsub):
        def case(c):
            ghost_conn(c)
            opts = {}
            if nsub:
                opts["subprotocols"] = (True, c.alloc("list", None, [c.fresh("str", f"sub{i}") for i in range(nsub)]))
            opts["cookie"] = (smt.fresh(smt.Bool, "has_cookie"), c.fresh("str", "opt_cookie"))
            c.ghost["jar_adds"] = c.fresh("int", "jar_adds")
            return dict(sock=c.new_ext("sock"), url=c.fresh("str", "url"), hostname=c.fresh("str", "host"), port=c.fresh("int", "port"),
                        resource=c.fresh("str", "resource"), options=c.alloc("dict", None, opts))
        return case

    # ghost: remember the key returned by _get_handshake_headers in this call and when the request was written
    def after_ghh(c, fr, r):
        c.ghost["$req_key"] = r[1]
        c.ghost["$req_lines"] = r[0]
    e.after_call[("handshake", "_get_handshake_headers")] = after_ghh

    def after_send(c, fr, r):
        c.ghost["$rx_calls_at_send"] = c.ghost.get("rx_calls")
        c.ghost["$sends"] = SV("int", z(c.ghost["$sends"]) + 1) if "$sends" in c.ghost else 1
    e.after_call[("handshake", "send")] = after_send

    def hs_req(c, a):
        return z3.And(z3.Contains(z(a["url"]), z3.StringVal(":")))

    def hs_post(c, old, a, res):
        if not isinstance(res, Ref):
            return z3.BoolVal(False)
        status, headers, subp = c.getf(res, "status"), c.getf(res, "headers"), c.getf(res, "subprotocol")
        st = z(unopt(status), "int") if unopt(status) is not None else None
        if st is None:
            return z3.BoolVal(False)
        if c.mode == "assume":
            # use at a call site: the validity of the 101 response against the request's key is this function's own obligation;
            # callers rely on the status classes and on the single jar update
            return z3.And(z3.Not(zn(status)), z3.Or(z3.And(in_set(st, REDIR), zn(subp)), st == 101),
                          z(c.ghost["jar_adds"]) == z(old.ghost["jar_adds"]) + 1 if "jar_adds" in old.ghost else z3.BoolVal(True))
        if "$req_key" not in c.ghost:
            return z3.BoolVal(False)
        key = c.ghost["$req_key"]
        subs = None
        od = old.cell(a["options"]).data
        if "subprotocols" in od:
            subs = od["subprotocols"][1]
        ok, pr = install_handshake2.valid_spec(c, dict(headers=headers, key=key, subprotocols=subs))
        return z3.And(z3.Not(zn(status)),
                      z3.Or(z3.And(in_set(st, REDIR), zn(subp)), z3.And(st == 101, ok)),
                      # exactly one request, written before anything is read
                      z3.BoolVal(c.ghost.get("$sends") == 1),
                      z(c.ghost["$rx_calls_at_send"]) == z(old.ghost["rx_calls"]),
                      z(c.ghost["jar_adds"]) == (z(old.ghost["jar_adds"]) if "jar_adds" in old.ghost else 0) + 1)

    def hs_havoc(c, a, old, k):
        for g, tg in (("rpos", "int"), ("rx_calls", "int"), ("wire", "bytes"), ("tx_calls", "int"), ("draws", "int")):
            c.ghost[g] = c.fresh(tg, g)
        c.ghost["$line_start"] = c.fresh("int", "line_start")
        c.ghost["jar_adds"] = c.fresh("int", "jar_adds")

    def hs_result(c, a):
        return c.alloc("obj", hs.handshake_response, dict(status=c.fresh(("opt", "int"), "status"), headers=new_symmap(c),
                                                           subprotocol=c.fresh(("opt", "str"), "subprotocol")))
    HS_EXC = [X.WebSocketBadStatusException, X.WebSocketException] + RECV_EXC + [_socket.timeout]
    e.add(Contract(HS + "handshake", cases=[("no-subprotocols", hs_case(0)), ("one-subprotocol", hs_case(1))], requires=hs_req,
                   ensures=hs_post, result=hs_result, havoc=hs_havoc,
                   raises=[(k_, None, None) for k_ in HS_EXC] + [(UnicodeEncodeError, None, None)],
                   modifies=lambda c, a: ["ghost:rpos", "ghost:rx_calls", "ghost:wire", "ghost:tx_calls", "ghost:draws", "ghost:$line_start", "ghost:jar_adds"],
                   props=("C09", "C10", "C17", "C20"),
                   doc="writes exactly one request (the lines of _get_handshake_headers joined by CRLF) before the first read; returns only for a "
                       "redirect status or for 101 with a head that _validate accepts against the key sent in this very request; the response's "
                       "Set-Cookie goes to the process-wide jar once; everything else raises a documented exception"))


def install_connect(e):
    """_http.connect (as a contract; body: C11/C18/C19) and WebSocket.connect / create_connection (C09, C17)."""
    import websocket._handshake as hs
    import websocket._core as core_mod
    from .core import mk_ws, ghost_conn, ghost_close
    K = "websocket._core:"
    REDIR = tuple(int(x) for x in hs.SUPPORTED_REDIRECT_STATUSES)
    hsc = e.contracts[HS + "handshake"]

    def in_set(t, vals):
        return z3.Or(*[t == v for v in vals])

    # ---- _http.connect(url, options, proxy, socket) as seen by its callers ---------------------------
    def hc_result(c, a):
        given = a.get("socket")
        if given is not None:
            sk = given
        else:
            sk = c.new_ext("sock")
            c.ghost["opened_handles"] = SV("int", z(c.ghost["opened_handles"]) + 1)
        return (sk, (c.fresh("str", "hostname"), c.fresh("int", "port"), c.fresh("str", "resource")))

    def hc_post(c, old, a, res):
        return z3.Contains(z(a["url"]), z3.StringVal(":"))
    CONNECT_EXC = [X.WebSocketException, OSError, ValueError, http_mod.ProxyError]
    e.add(Contract(H + "connect", cases=[], ensures=hc_post, result=hc_result, havoc=lambda c, a, old, k: None,
                   raises=[(k_, None, None) for k_ in CONNECT_EXC], props=("C11", "C18", "C19"),
                   doc="returns an open transport to the URL's target (the caller's own socket if one was given) and (host, port, resource) of "
                       "parse_url; on failure raises and leaves no transport open; ValueError only for an invalid URL"))

    # ---- WebSocket.connect(url, **options) ----------------------------------------------------------
    def wc_case(kind):
        def case(c):
            ws = mk_ws(c, sock="none", connected=False, keysrc="none")
            ghost_close(c)
            c.ghost["opened_handles"] = c.fresh("int", "opened_handles")
            c.ghost["jar_adds"] = c.fresh("int", "jar_adds")
            c.ghost["$handshakes"] = 0
            c.ghost["$nhs"] = SV("int", z3.IntVal(0))
            opts = {"redirect_limit": (smt.fresh(smt.Bool, "has_limit"), c.fresh("int", "redirect_limit")),
                    "timeout": (smt.fresh(smt.Bool, "has_timeout"), c.fresh(("opt!", "real"), "timeout"))}
            if kind == "own-socket":
                opts["socket"] = (True, c.new_ext("sock", given=True))
            return dict(self=ws, url=c.fresh("str", "url"), options=c.alloc("dict", None, opts))
        return case

    def after_hs(c, fr, r):
        c.ghost["$handshakes"] = c.ghost.get("$handshakes", 0) + 1
        if "$nhs" in c.ghost:
            c.ghost["$nhs"] = SV("int", z(c.ghost["$nhs"]) + 1)
        c.ghost["$last_response"] = r
    e.after_call[("WebSocket.connect", "handshake")] = after_hs
    e.after_call[("WebSocket.connect", "connect")] = lambda c, fr, r: c.ghost.__setitem__("$connects", c.ghost.get("$connects", 0) + 1)

    def net_handles(c, view):
        return z(view.ghost["opened_handles"]) - z(view.ghost["closed_handles"])

    def wc_post(c, old, a, res):
        ws = a["self"]
        resp = c.getf(ws, "handshake_response")
        if not isinstance(resp, Ref) and c.mode == "assume":
            # at a call site (the app): the summary the havoc already established - connected, with a transport of its own
            return z3.And(z(c.getf(ws, "connected"), "bool"), z3.Not(zn(c.getf(ws, "sock"))))
        if not isinstance(resp, Ref):
            return z3.BoolVal(False)
        st = c.getf(resp, "status")
        own = "socket" in old.cell(a["options"]).data
        return z3.And(z(c.getf(ws, "connected"), "bool"), z3.Not(zn(c.getf(ws, "sock"))), redirect_budget(c, old, a),
                      z3.Not(zn(st)), (z(unopt(st), "int") == 101) if unopt(st) is not None else z3.BoolVal(False),
                      z3.BoolVal(resp is c.ghost.get("$last_response")),
                      # exactly one transport is left open: the one the object now owns
                      net_handles(c, c) == net_handles(c, old) + (0 if own else 1))

    def redirect_budget(c, old, a):
        """handshakes made <= 1 + the configured redirect limit (default 3; a limit below zero counts as zero)."""
        ent = old.cell(a["options"]).data.get("redirect_limit")
        if ent is None or "$nhs" not in c.ghost:
            return z3.BoolVal(True)
        has, lim = ent[0], z(ent[1], "int")
        has = z3.BoolVal(True) if has is True else has
        cfg = z3.If(has, z3.If(lim > 0, lim, 0), 3)
        return z(c.ghost["$nhs"]) <= 1 + cfg

    def wc_fail(c, old, a, exc):
        ws = a["self"]
        own = old.cell(a["options"]).data.get("socket")
        # every transport the library opened or took over in this call is closed again; a socket supplied by the caller is
        # taken over once the transport set-up has returned it (before that, e.g. for an invalid URL, it is still the caller's)
        taken = own is not None and c.ghost.get("$connects", 0) >= 1
        return z3.And(zn(c.getf(ws, "sock")), z3.Not(z(c.getf(ws, "connected"), "bool")), redirect_budget(c, old, a),
                      net_handles(c, c) == net_handles(c, old) - (1 if taken else 0))

    def wc_fail_value(c, old, a, exc):
        # ValueError is the documented answer to an invalid URL given by the caller: only before any handshake
        return z3.And(wc_fail_novalue(c, old, a, exc), z3.BoolVal(c.ghost.get("$handshakes", 0) == 0))

    def wc_fail_novalue(c, old, a, exc):
        return wc_fail(c, old, a, exc)

    def wc_inv(c, fr, entry):
        ws = fr.locals["self"]
        resp = c.getf(ws, "handshake_response")
        own = "socket" in entry.cell(fr.locals["options"]).data or fr.locals.get("$own", False)
        st = c.getf(resp, "status") if isinstance(resp, Ref) else None
        st_ok = z3.And(z3.Not(zn(st)), in_set(z(unopt(st), "int"), REDIR + (101,))) if st is not None and unopt(st) is not None else z3.BoolVal(False)
        nhs = z3.And(z(c.ghost["$nhs"]) >= 1, z(c.ghost["$nhs"]) <= 1 + z(fr.locals["$i0"], "int")) if "$nhs" in c.ghost else z3.BoolVal(True)
        return z3.And(z3.Not(zn(c.getf(ws, "sock"))), z3.Not(z(c.getf(ws, "connected"), "bool")), st_ok, nhs,
                      z3.BoolVal(isinstance(resp, Ref) and resp is c.ghost.get("$last_response")),
                      net_handles(c, c) == z(fr.locals["$net0"]) + z(fr.locals["$delta"]))

    def wc_loop_havoc(c, fr, entry):
        ws = fr.locals["self"]
        hsc.havoc(c, {}, entry, 0)
        c.ghost["opened_handles"] = c.fresh("int", "opened_handles")
        c.ghost["closed_handles"] = c.fresh("int", "closed_handles")
        r = hsc.result(c, {})
        c.setf(ws, "handshake_response", r)
        c.ghost["$last_response"] = r
        c.ghost["$handshakes"] = 2
        if "$nhs" in c.ghost:
            c.ghost["$nhs"] = c.fresh("int", "handshakes_made")
        c.ghost["$connects"] = 2
        c.setf(ws, "sock", c.new_ext("sock"))
        fr.locals["$delta"] = 1
    e.loop("WebSocket.connect", 0, inv=wc_inv, havoc=wc_loop_havoc,
           shapes={"url": "str", "addrs": ("tuple", ["str", "int", "str"])},
           ghost_locals=lambda c, fr: {"$net0": SV("int", z(c.ghost["opened_handles"]) - z(c.ghost["closed_handles"]) -
                                                   (0 if c.ghost.get("$own_socket") else 1)),
                                       "$delta": 0 if c.ghost.get("$own_socket") else 1},
           modifies=lambda c, fr: [fr.locals["self"], fr.locals["options"]])
    # ---- create_connection(url, timeout, **options) -----------------------------------------------------------
    def cc_case(kind):
        def case(c):
            ghost_conn(c)
            ghost_close(c)
            c.ghost["opened_handles"] = c.fresh("int", "opened_handles")
            c.ghost["jar_adds"] = c.fresh("int", "jar_adds")
            t = c.fresh("real", "timeout") if kind == "timeout" else None
            for g, tg in (("attempts", "int"), ("clock", "real"), ("rx", "bytes"), ("rpos", "int"), ("fstart", "int"), ("rx_calls", "int")):
                c.ghost.setdefault(g, c.fresh(tg, g))
            return dict(url=c.fresh("str", "url"), timeout=t, options=c.alloc("dict", None, {}))
        return case

    def timeout_before_connect(c, fr, args):
        """ghost assertion at the call of connect() inside create_connection: the timeout the caller asked for (else the module
        default) is already in force, so the connection set-up and the handshake cannot block for ever on a silent peer (C09 / C17)."""
        ws = fr.locals.get("websock")
        t = fr.locals.get("timeout")
        if not isinstance(ws, Ref):
            return
        cur = c.getf(c.getf(ws, "sock_opt"), "timeout")
        want = t if t is not None else c.ghost.get("$default_timeout")
        if t is None and "$default_timeout" not in c.ghost:
            goal = z3.BoolVal(False)
        elif cur is want:
            goal = z3.BoolVal(True)
        else:
            r = e.interp.same_value(c, cur, want)
            goal = z3.BoolVal(r) if isinstance(r, bool) else r
        c.prove("create_connection.timeout-set-before-connect", goal, c.last_call_node)
    e.before_call[("create_connection", "connect")] = timeout_before_connect
    e.after_call[("create_connection", "getdefaulttimeout")] = lambda c, fr, r: c.ghost.__setitem__("$default_timeout", r)

    def cc_post(c, old, a, res):
        return z3.And(z3.BoolVal(isinstance(res, Ref)), z(c.getf(res, "connected"), "bool") if isinstance(res, Ref) else z3.BoolVal(False))
    e.add(Contract(K + "create_connection", cases=[("timeout-given", cc_case("timeout")), ("default-timeout", cc_case("none"))],
                   ensures=cc_post, raises=[(k_, None, None) for k_ in (X.WebSocketException, OSError, http_mod.ProxyError, _socket.timeout, UnicodeEncodeError, ValueError)],
                   modifies=lambda c, a: [a["options"]] + ["ghost:" + g for g in ("opened_handles", "closed_handles", "rpos", "rx_calls", "wire", "tx_calls", "draws",
                                                                                  "$line_start", "jar_adds", "clock", "auto_close", "rx", "fstart", "attempts",
                                                                                  "last_attempt_clock", "m_open")],
                   props=("C09", "C17"),
                   doc="a new WebSocket on which the requested timeout (else the module default) is set before connect() runs; returns it only "
                       "connected (contract of connect())"))

    old_ct = e.contracts[K + "WebSocket.connect"]
    WC_EXC = [X.WebSocketException, OSError, http_mod.ProxyError, _socket.timeout, UnicodeEncodeError]
    e.add(Contract(K + "WebSocket.connect", cases=[("resolve", wc_case("resolve")), ("own-socket", wc_case("own-socket"))],
                   ensures=wc_post, havoc=old_ct.havoc,
                   raises=[(UnicodeEncodeError, None, wc_fail_novalue), (ValueError, None, wc_fail_value)] + [(k_, None, wc_fail_novalue) for k_ in WC_EXC],
                   modifies=lambda c, a: [a["self"], a["options"], c.getf(a["self"], "sock_opt")] + ["ghost:" + g for g in ("opened_handles", "closed_handles", "rpos", "rx_calls", "wire",
                                                                                           "tx_calls", "draws", "$line_start", "jar_adds", "clock", "auto_close")],
                   props=("C09", "C17"),
                   doc="returns only with connected = True, a transport, and a final response of status 101 that handshake() validated against the key "
                       "of that very request; redirects are followed at most redirect_limit times and a redirect status left after the loop, a "
                       "redirect without Location or an unusable Location raise WebSocketException; on every failure the transport is closed, "
                       "sock = None, connected = False; ValueError only for the caller's own invalid URL"))
