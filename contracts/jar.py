"""Contracts for websocket/_cookiejar.py (C20).  http.cookies.SimpleCookie is an external dependency: it is given an ASSUMED
contract (an ordered finite map name -> morsel, a morsel carrying its value and its Domain attribute; update() overwrites same-named
entries and appends new ones).  Under that contract the jar's own logic - which responses are stored, under which key, and which
stored entries a host selects - is verified for ARBITRARY strings (domains, names, values, hosts are symbolic); what is bounded is
the NUMBER of entries (jar of at most 2 domains, responses of at most 2 cookies), stated in the evidence.  Rendering (sorting and
joining the selected cookies) stays with the bounded enumeration of harness/native_c20.py."""
import z3
from pyvc import smt
from pyvc.engine import Contract
from pyvc.interp import mk
from pyvc.values import SV, Ref, Ext, OptV, z, zn, unopt, tag_of
import websocket._cookiejar as jar_mod

J = "websocket._cookiejar:"
DOT = z3.StringVal(".")


def lower(s):
    from pyvc import models as M
    return M.str_lower(s) if hasattr(M, "str_lower") else z3.Function("str_lower", smt.S, smt.S)(s)


def norm(d):
    """key under which a cookie with Domain=d is stored: leading dot added if missing, lower-cased."""
    return lower(z3.If(z3.PrefixOf(DOT, d), d, z3.Concat(DOT, d)))


def covers(key, host_l):
    """stored key `.dom` covers the (lower-cased) host: the domain itself or a sub-domain on a label boundary."""
    return z3.Or(z3.SuffixOf(key, host_l), host_l == z3.SubString(key, 1, z3.Length(key) - 1))


def install(e):
    _b = lambda x: z3.BoolVal(x) if isinstance(x, bool) else x

    # ---------------------------------------------------------------- assumed: http.cookies.SimpleCookie / Morsel
    def new_cookie(c, a):
        args = a["$args"]
        ck = c.new_ext("simplecookie", morsels=[])
        if args:
            # SimpleCookie(header): the parse of the header as prepared by the contract case ($parse: list of (name, value, domain))
            shape = c.ghost.get("$parse")
            if shape is None:
                from pyvc.ctx import Undecided
                raise Undecided("SimpleCookie(header) outside a jar contract case")
            ck.attrs["morsels"] = [(n, c.new_ext("morsel", value=v, domain=d)) for (n, v, d) in shape]
            ck.attrs["parsed_from"] = args[0]
        return ck
    e.add(Contract("new:http.cookies.SimpleCookie", assumed=True, result=new_cookie, havoc=lambda c, a, old, k: None,
                   doc="SimpleCookie(header): an ordered map name -> morsel (value, attributes) of the cookies in the header; SimpleCookie(): empty"))
    e.add(Contract("ext:simplecookie.values", assumed=True, havoc=lambda c, a, old, k: None,
                   result=lambda c, a: tuple(m for (_, m) in a["self"].attrs["morsels"])))
    e.add(Contract("ext:simplecookie.items", assumed=True, havoc=lambda c, a, old, k: None,
                   result=lambda c, a: tuple((n, m) for (n, m) in a["self"].attrs["morsels"])))

    def morsel_get(c, a):
        key = a["$args"][0]
        if key != "domain":
            from pyvc.ctx import Undecided
            raise Undecided(f"Morsel.get({key!r})")
        return a["self"].attrs["domain"]  # '' when the cookie carried no Domain attribute
    e.add(Contract("ext:morsel.get", assumed=True, havoc=lambda c, a, old, k: None, result=morsel_get,
                   doc="Morsel.get('domain'): the Domain attribute as written, '' if absent"))
    e.ext_attr_hooks["morsel"] = lambda c, obj, attr, node: obj.attrs[attr]

    def cookie_update(c, a, old, k):
        me, other = a["self"], a["$args"][0]
        ms = list(me.attrs["morsels"])
        for (n, m) in other.attrs["morsels"]:
            for i, (n0, m0) in enumerate(ms):
                if c.branch(z(n0) == z(n)):
                    ms[i] = (n0, m)
                    break
            else:
                ms.append((n, m))
        me.attrs["morsels"] = ms
    e.add(Contract("ext:simplecookie.update", assumed=True, havoc=cookie_update,
                   doc="SimpleCookie.update(other): entries of `other` overwrite same-named ones and new names are appended (dict.update)"))
    e.method_models[("simplecookie", "__bool__")] = None
    # truthiness of a SimpleCookie (a dict): non-empty
    e.ext_truth = getattr(e, "ext_truth", {})
    e.ext_truth["simplecookie"] = lambda c, obj: len(obj.attrs["morsels"]) > 0

    # ---------------------------------------------------------------- the jar's dict (a real dict in the code, keyed by symbolic strings)
    def jd_get(c, a):
        k = a["$args"][0]
        default = a["$args"][1] if len(a["$args"]) > 1 else None
        for (key, ck) in a["self"].attrs["entries"]:
            if c.branch(z(key) == z(k)):
                return ck
        return default
    e.add(Contract("ext:jardict.get", assumed=True, havoc=lambda c, a, old, k: None, result=jd_get, doc="dict.get over pairwise distinct keys"))
    e.add(Contract("ext:jardict.items", assumed=True, havoc=lambda c, a, old, k: None,
                   result=lambda c, a: tuple((key, ck) for (key, ck) in a["self"].attrs["entries"])))

    def jd_set(c, a, old, k_):
        k, v = a["$args"]
        ents = a["self"].attrs["entries"]
        for i, (key, ck) in enumerate(ents):
            if c.branch(z(key) == z(k)):
                ents[i] = (key, v)
                return
        ents.append((k, v))
    e.add(Contract("ext:jardict.__setitem__", assumed=True, havoc=jd_set, doc="dict item assignment"))

    def token(t):
        """a cookie name: non-empty and free of the separators of the Cookie header (as http.cookies produces them)"""
        return z3.And(z3.Length(t) > 0, z3.Not(z3.Contains(t, z3.StringVal("="))), z3.Not(z3.Contains(t, z3.StringVal(";"))),
                      z3.Not(z3.Contains(t, z3.StringVal(" "))))

    def mk_jar(c, n_entries, per_entry=None):
        ents = []
        for i in range(n_entries):
            key = c.fresh("str", f"dom{i}")
            # representation invariant of the jar: keys start with a dot and are lower-case
            c.assume(z3.And(z3.PrefixOf(DOT, key.t), lower(key.t) == key.t, z3.Length(key.t) > 1))
            ck = c.new_ext("simplecookie", morsels=[(c.fresh("str", f"n{i}_{j}"), c.new_ext("morsel", value=c.fresh("str", f"v{i}_{j}"), domain=c.fresh("str", "d"))) for j in range(per_entry or (1 + i % 2))])
            for (n_, _) in ck.attrs["morsels"]:
                c.assume(token(n_.t))
            ms_ = ck.attrs["morsels"]
            for x in range(len(ms_)):
                for y in range(x):
                    c.assume(ms_[x][0].t != ms_[y][0].t)
            ents.append((key, ck))
        for i in range(n_entries):
            for j in range(i):
                c.assume(ents[i][0].t != ents[j][0].t)
        jd = c.new_ext("jardict", entries=ents)
        return c.alloc("obj", jar_mod.SimpleCookieJar, dict(jar=jd)), jd

    # ---------------------------------------------------------------- SimpleCookieJar.add(set_cookie)
    def add_case(n_entries, shape):
        def case(c):
            jar, jd = mk_jar(c, n_entries)
            parse = []
            for i, has_dom in enumerate(shape):
                d = c.fresh("str", f"domain{i}")
                if not has_dom:
                    d = mk("str", z3.StringVal(""))
                else:
                    c.assume(z3.Length(d.t) > 0)
                parse.append((c.fresh("str", f"name{i}"), c.fresh("str", f"value{i}"), d))
            if len(parse) == 2:
                c.assume(parse[0][0].t != parse[1][0].t)
                # "one Domain per response" (the property's quantifier): cookies of one response that name a Domain name the same one
                if shape[0] and shape[1]:
                    c.assume(parse[0][2].t == parse[1][2].t)
            c.ghost["$parse"] = parse
            c.ghost["$jd0"] = [(k, list(ck.attrs["morsels"])) for (k, ck) in jd.attrs["entries"]]
            hdr = c.fresh("str", "set_cookie")
            c.assume(z3.Length(hdr.t) > 0)
            return dict(self=jar, set_cookie=hdr)
        return case

    def add_post(c, old, a, res):
        jd = c.getf(a["self"], "jar")
        if not isinstance(jd, Ext):
            return z3.BoolVal(False)
        parse, before = c.ghost["$parse"], c.ghost["$jd0"]
        ents = jd.attrs["entries"]
        doms = [d for (_, _, d) in parse if not (z3.is_string_value(z(d)) and z(d).as_string() == "")]
        conds = []
        # keys stay dotted and lower-case, the entries that were there stay (under their keys)
        for (k, ck) in ents:
            conds.append(z3.And(z3.PrefixOf(DOT, z(k)), lower(z(k)) == z(k)))
        conds.append(z3.BoolVal(len(ents) >= len(before) and all(ents[i][0] is before[i][0] for i in range(len(before)))))
        if not doms:
            # no Domain in the response: nothing is kept
            conds.append(z3.BoolVal(len(ents) == len(before) and all([m for m in ents[i][1].attrs["morsels"]] == before[i][1] for i in range(len(before)))))
            return z3.And(*conds)
        key = norm(z(doms[0]))
        # the response's cookies are stored under norm(Domain) - all of them, latest value winning - and under no other key
        hit = [z(k) == key for (k, _) in ents]
        conds.append(z3.Or(*hit) if hit else z3.BoolVal(False))
        for i, (k, ck) in enumerate(ents):
            names = ck.attrs["morsels"]
            has_all = z3.And(*[z3.Or(*[z3.And(z(n2) == z(n), z(m2.attrs["value"]) == z(v)) for (n2, m2) in names]) if names else z3.BoolVal(False)
                               for (n, v, _) in parse])
            conds.append(z3.Implies(z(k) == key, has_all))
            if i < len(before):
                untouched = z3.BoolVal(names == before[i][1])
                conds.append(z3.Implies(z(k) != key, untouched))
                # cookies stored earlier for that domain stay unless the response names them again (then the new value wins)
                for (n0, m0) in before[i][1]:
                    renamed = z3.Or(*[z(n) == z(n0) for (n, _, _) in parse])
                    kept = z3.Or(*[z3.And(z(n2) == z(n0), z3.BoolVal(m2 is m0)) for (n2, m2) in names]) if names else z3.BoolVal(False)
                    conds.append(z3.Implies(z3.And(z(k) == key, z3.Not(renamed)), kept))
            else:
                conds.append(z(k) == key)
        return z3.And(*conds)
    e.add(Contract(J + "SimpleCookieJar.add",
                   cases=[(f"jar{n}-response{''.join('D' if s else 'n' for s in sh)}", add_case(n, sh))
                          for n in (0, 1, 2) for sh in ((True,), (False,), (True, True), (True, False), (False, False))],
                   ensures=add_post, modifies=lambda c, a: [], props=("C20",),
                   doc="cookies of a response are kept only when it names a Domain; they are stored - all of them, overwriting same-named "
                       "older ones - under the key '.'+domain (dot not doubled) lower-cased, and no other entry changes"))

    # ---------------------------------------------------------------- SimpleCookieJar.get(host)
    def get_case(n_entries):
        def case(c):
            jar, jd = mk_jar(c, n_entries, per_entry=1)
            return dict(self=jar, host=c.fresh("str", "host"))
        return case

    def selection(c, fr, args):
        """ghost assertion where get() renders its answer: the cookies it is about to render are exactly those of the stored domains
        that cover the host - the domain itself or a sub-domain, on a label boundary, compared case-insensitively - in jar order."""
        jar = fr.locals["self"]
        jd = c.getf(jar, "jar")
        host_l = lower(z(c.ghost["$host0"]))
        chosen = c.cell(fr.locals["cookies"]).data if isinstance(fr.locals.get("cookies"), Ref) else None
        if not isinstance(chosen, list):
            from pyvc.ctx import Undecided
            raise Undecided("get() no longer collects the selected entries in a local list `cookies` (the selection assertion is stated over it)")
        ents = jd.attrs["entries"]
        # on this path the selected list is a concrete sub-list of the entries; every entry is in it iff it covers the host
        goal, pos = [], 0
        for (k, ck) in ents:
            inside = pos < len(chosen) and chosen[pos] is ck
            goal.append(covers(z(k), host_l) if inside else z3.Not(covers(z(k), host_l)))
            if inside:
                pos += 1
        goal.append(z3.BoolVal(pos == len(chosen)))
        c.prove("get.selection", z3.And(*goal), c.last_call_node)
    e.before_call[("SimpleCookieJar.get", "sorted")] = selection

    def get_post(c, old, a, res):
        """the answer is the selected cookies rendered 'name=value', NAME-sorted (the statement's order; cookies of equal name - the
        same name stored for two covering domains - may come in either order), joined by '; '."""
        import itertools
        if not (isinstance(res, SV) or isinstance(res, str)):
            return z3.BoolVal(False)
        r = z(res) if isinstance(res, SV) else z3.StringVal(res)
        jd = c.getf(a["self"], "jar")
        host = z(a["host"])
        host_l = lower(host)
        ents = jd.attrs["entries"]
        # which entries are selected is a formula (covers); enumerate the selections, each guarded by its condition
        alts = []
        for mask in itertools.product([False, True], repeat=len(ents)):
            guard = z3.And(z3.Length(host) > 0, *[covers(z(k), host_l) if m else z3.Not(covers(z(k), host_l)) for m, (k, _) in zip(mask, ents)])
            items = [(z(n), z(m_.attrs["value"])) for sel, (_, ck) in zip(mask, ents) if sel for (n, m_) in ck.attrs["morsels"]]
            outs = []
            for perm in itertools.permutations(items):
                ordered = z3.And(*[perm[i][0] <= perm[i + 1][0] for i in range(len(perm) - 1)]) if len(perm) > 1 else z3.BoolVal(True)
                parts = []
                for i, (n, v) in enumerate(perm):
                    if i:
                        parts.append(z3.StringVal("; "))
                    parts += [n, z3.StringVal("="), v]
                text = z3.Concat(*parts) if len(parts) > 1 else (parts[0] if parts else z3.StringVal(""))
                outs.append(z3.And(ordered, r == text))
            alts.append(z3.Implies(guard, z3.Or(*outs)))
        return z3.And(z3.Implies(z3.Length(host) == 0, r == z3.StringVal("")), *alts)
    e.add(Contract(J + "SimpleCookieJar.get", cases=[(f"jar{n}", get_case(n)) for n in (0, 1, 2)], ensures=get_post,
                   ghost_entry=lambda c, a: c.ghost.__setitem__("$host0", a["host"]),
                   result=lambda c, a: c.fresh("str", "cookie_header"), modifies=lambda c, a: [], props=("C20",),
                   doc="an empty host selects nothing; otherwise exactly the stored domains covering the lower-cased host are selected "
                       "(ghost assertion get.selection); the selected cookies are rendered 'name=value' joined by '; '"))
