"""Contracts for the transport set-up in websocket/_http.py: _open_socket, _get_addrinfo_list, _tunnel, _ssl_socket,
_wrap_sni_socket, connect (C11, C18, C19)."""
import errno as _errno
import socket as _socket
import ssl as _ssl
import z3
from pyvc import smt
from pyvc import models as _M
from pyvc.engine import Contract
from pyvc.ctx import Undecided
from pyvc.interp import mk, py_exc
from pyvc.values import SV, Ref, Ext, ExcVal, OptV, IteV, SymSeq, z, zn, unopt, tag_of
from pyvc.smt import S, Int, Sq, slen
from .http import new_symmap, hget, H, RECV_EXC
import websocket._exceptions as X
import websocket._http as http_mod
import websocket._socket as sock_mod

ai_fam, ai_type, ai_proto = z3.Function("ai_family", Int, Int), z3.Function("ai_socktype", Int, Int), z3.Function("ai_proto", Int, Int)
ai_host, ai_port = z3.Function("ai_host", Int, S), z3.Function("ai_port", Int, Int)
RETRY_ERRNOS = (_errno.ECONNREFUSED, _errno.ENETUNREACH)


def addrinfo_seq(c, n):
    def elem(c_, i):
        it = z(i, "int")
        return (mk("int", ai_fam(it)), mk("int", ai_type(it)), mk("int", ai_proto(it)), "", (mk("str", ai_host(it)), mk("int", ai_port(it))))
    return c.alloc("list", None, SymSeq(n, elem, "addrinfo"))


def ghost_net(c):
    g = c.ghost
    for n in ("opened_handles", "closed_handles", "connect_attempts"):
        g.setdefault(n, c.fresh("int", n))
    g.setdefault("rx", c.fresh("bytes", "rx"))
    g.setdefault("rpos", c.fresh("int", "rpos"))
    g.setdefault("rx_calls", c.fresh("int", "rx_calls"))
    g.setdefault("wire", c.fresh("bytes", "wire"))
    g.setdefault("tx_calls", c.fresh("int", "tx_calls"))


def install(e):
    install_open_socket(e)
    install_tls(e)
    install_tunnel_connect(e)
    install_connect_body(e)


def install_open_socket(e):
    # ---- socket primitives (assumed) -----------------------------------------------------------------
    def sock_new(c, a):
        args = list(a["$args"])
        c.ghost["opened_handles"] = SV("int", z(c.ghost["opened_handles"]) + 1)
        return c.new_ext("sock", created=tuple(args), opts=[], index=c.ghost.get("$cur_index"))
    e.add(Contract("new:socket.socket", assumed=True, result=sock_new, havoc=lambda c, a, old, k: None,
                   doc="socket.socket(family, type, proto): a new open handle (opened_handles' = opened_handles + 1)"))

    def setsockopt(c, a, old, k):
        a["self"].attrs.setdefault("opts", []).append(tuple(a["$args"]))
    e.add(Contract("ext:sock.setsockopt", assumed=True, havoc=setsockopt))

    def conn_ok(c, a, old, k):
        c.ghost["connect_attempts"] = SV("int", z(c.ghost["connect_attempts"]) + 1)
        if k == 0:
            a["self"].attrs["connected_to"] = a["$args"][0]

    def conn_err(kind):
        def post(c, old, a, exc):
            if kind == "retry":
                en = c.fresh("int", "errno")
                c.assume(z3.Or(*[en.t == v for v in RETRY_ERRNOS]))
            else:
                en = c.fresh("int", "errno")
                c.assume(z3.And(*[en.t != v for v in RETRY_ERRNOS]))
            return ExcVal(OSError, (en, "connect failed"), {"errno": en, "$kind": kind})
        return post
    e.add(Contract("ext:sock.connect", assumed=True, havoc=conn_ok,
                   raises=[(OSError, None, conn_err("retry")), (OSError, None, conn_err("other"))],
                   doc="sock.connect(address): succeeds, or raises OSError whose errno is ECONNREFUSED / ENETUNREACH (try the next address) "
                       "or anything else"))

    # ---- _open_socket -----------------------------------------------------------------------------------
    DEFAULTS = [tuple(o) for o in sock_mod.DEFAULT_SOCKET_OPTION]

    def os_case(nopt):
        def case(c):
            ghost_net(c)
            n = c.fresh("int", "n_addresses")
            c.assume(n.t >= 1)
            user = tuple((c.fresh("int", f"lvl{i}"), c.fresh("int", f"opt{i}"), c.fresh("int", f"val{i}")) for i in range(nopt))
            return dict(addrinfo_list=addrinfo_seq(c, n), sockopt=user, timeout=c.fresh(("opt", "real"), "timeout"))
        return case

    def err_shape(c, hint):
        en = c.fresh("int", "errno")
        c.assume(z3.Or(*[en.t == v for v in RETRY_ERRNOS]))
        return OptV(smt.fresh(smt.Bool, "err.isnone"), ExcVal(OSError, (en, "connect failed"), {"errno": en, "$kind": "retry"}))

    def os_inv(c, fr, entry):
        i = z(fr.locals["$i0"], "int")
        err = fr.locals.get("err")
        return z3.And(
            # every socket created for the addresses tried so far has been closed again
            z(c.ghost["opened_handles"]) - z(c.ghost["closed_handles"]) == z(entry.ghost["opened_handles"]) - z(entry.ghost["closed_handles"]),
            z(c.ghost["connect_attempts"]) == z(entry.ghost["connect_attempts"]) + i,
            # and each failed with "refused" / "unreachable": the last such error is remembered
            zn(err) == (i == 0))

    def os_havoc(c, fr, entry):
        for g in ("opened_handles", "closed_handles", "connect_attempts"):
            c.ghost[g] = c.fresh("int", g)
        fr.locals["sock"] = c.new_ext("sock", closed=True)
    e.loop("_open_socket", 0, inv=os_inv, havoc=os_havoc,
           shapes={"err": err_shape, "family": "int", "socktype": "int", "proto": "int", "address": ("tuple", ["str", "int"]),
                   "opts": ("const", None), "eConnRefused": ("const", None)},
           keep=("sock",), ghost_locals=lambda c, fr: {"sock": None})

    def same(c, x, y):
        r = e.interp.same_value(c, x, y)
        return z3.BoolVal(r) if isinstance(r, bool) else r

    def os_post(c, old, a, res):
        if not isinstance(res, Ext):
            return z3.BoolVal(False)
        at_ = res.attrs
        idx = at_.get("index")
        want_opts = DEFAULTS + [tuple(o) for o in a["sockopt"]]
        got = at_.get("opts", [])
        opts_ok = z3.BoolVal(len(got) == len(want_opts)) if len(got) != len(want_opts) else \
            z3.And(*[same(c, g, w) for g, w in zip(got, want_opts)])
        return z3.And(
            z3.BoolVal(not at_.get("closed")), opts_ok,
            same(c, at_.get("timeout", "$unset"), a["timeout"]),
            z3.BoolVal("connected_to" in at_),
            z(c.ghost["opened_handles"]) - z(c.ghost["closed_handles"]) == z(old.ghost["opened_handles"]) - z(old.ghost["closed_handles"]) + 1)

    def os_fail(c, old, a, exc):
        # nothing is left open; a refused / unreachable address never aborts the attempt while others remain: such an error is
        # raised only after every address has been tried (it is then the error of the last one)
        n = z(e.models.b_len(c, [a["addrinfo_list"]], {}, None), "int")
        tried_all = z(c.ghost["connect_attempts"]) == z(old.ghost["connect_attempts"]) + n
        retry_kind = isinstance(exc, ExcVal) and exc.attrs.get("$kind") == "retry"
        return z3.And(z(c.ghost["opened_handles"]) - z(c.ghost["closed_handles"]) == z(old.ghost["opened_handles"]) - z(old.ghost["closed_handles"]),
                      tried_all if retry_kind else z3.BoolVal(True))

    def os_havoc_call(c, a, old, k):
        for g in ("opened_handles", "closed_handles", "connect_attempts"):
            if g in c.ghost:
                c.ghost[g] = c.fresh("int", g)
    e.add(Contract(H + "_open_socket", cases=[("no-user-options", os_case(0)), ("two-user-options", os_case(2))],
                   requires=lambda c, a: z(e.models.b_len(c, [a["addrinfo_list"]], {}, None), "int") >= 1,
                   ensures=os_post,
                   result=lambda c, a: c.new_ext("sock", opts=list(DEFAULTS) + [tuple(o) for o in a["sockopt"]], timeout=a["timeout"],
                                                 connected_to=(c.fresh("str", "peer_host"), c.fresh("int", "peer_port"))),
                   havoc=os_havoc_call,
                   raises=[(OSError, None, os_fail)],
                   modifies=lambda c, a: ["ghost:opened_handles", "ghost:closed_handles", "ghost:connect_attempts"], props=("C18",),
                   doc="tries the addresses in order: each socket is created from its own (family, type, proto), gets the timeout, every default "
                       "option then every user option, and one connect; refused / unreachable addresses are closed and skipped; the first "
                       "success is returned open; if all fail the last error is raised, any other error is raised at once - with no socket left open"))


# ===================================================================== C11: TLS configuration
SSL_KEYS = ["cert_reqs", "check_hostname", "ca_certs", "ca_cert_path", "server_hostname", "context", "ciphers", "cert_chain", "ecdh_curve",
            "certfile", "keyfile", "password", "ssl_version", "do_handshake_on_connect", "suppress_ragged_eofs"]
CERT_NONE, CERT_OPTIONAL, CERT_REQUIRED = int(_ssl.CERT_NONE), int(_ssl.CERT_OPTIONAL), int(_ssl.CERT_REQUIRED)


def install_tls(e):
    import os as _os
    path_isfile = z3.Function("path_isfile", S, smt.Bool)
    path_isdir = z3.Function("path_isdir", S, smt.Bool)
    e.add(Contract("genericpath:isfile", assumed=True, result=lambda c, a: SV("bool", path_isfile(z(a["$args"][0]))), havoc=lambda c, a, old, k: None))
    e.add(Contract("genericpath:isdir", assumed=True, result=lambda c, a: SV("bool", path_isdir(z(a["$args"][0]))), havoc=lambda c, a, old, k: None))

    e.lazy_ext_kinds.add("sslctx")
    # ---- ssl.SSLContext (assumed): attribute record + the calls made on it ------------------------------------
    def ctx_new(c, a):
        ver = a["$args"][0] if a["$args"] else None
        x = c.new_ext("sslctx", calls=[], version=ver)
        client = (ver == int(_ssl.PROTOCOL_TLS_CLIENT)) if not isinstance(ver, SV) else None
        # PROTOCOL_TLS_CLIENT starts with CERT_REQUIRED / check_hostname True; other protocol values start unverified
        x.attrs["verify_mode"] = CERT_REQUIRED if client else (c.fresh("int", "default_verify_mode") if client is None else CERT_NONE)
        x.attrs["check_hostname"] = True if client else (c.fresh("bool", "default_check_hostname") if client is None else False)
        c.ghost["$ctx"] = x
        return x
    e.add(Contract("new:ssl.SSLContext", assumed=True, result=ctx_new, havoc=lambda c, a, old, k: None,
                   doc="ssl.SSLContext(protocol): PROTOCOL_TLS_CLIENT starts with verify_mode=CERT_REQUIRED, check_hostname=True"))

    def ctx_set(c, obj, attr, v, node):
        # ssl refuses verify_mode = CERT_NONE while check_hostname is on (ValueError): the order of the two stores matters
        if attr == "verify_mode":
            ch = obj.attrs.get("$check_hostname_now", obj.attrs.get("check_hostname"))
            bad = z3.And(z(v, "int") == CERT_NONE, z(ch, "bool") if not isinstance(ch, bool) else z3.BoolVal(ch))
            if c.branch(bad):
                raise py_exc(ValueError, "Cannot set verify_mode to CERT_NONE when check_hostname is enabled.")
        if attr == "check_hostname":
            obj.attrs["$check_hostname_now"] = v
        obj.attrs.setdefault("$sets", []).append(attr)
    e.ext_attr_hooks["sslctx.set"] = ctx_set

    def rec(name):
        def h(c, a, old, k):
            a["self"].attrs["calls"].append((name, tuple(a["$args"]), dict(a["$kwargs"])))
        return h
    for m in ("load_verify_locations", "load_default_certs", "load_cert_chain", "set_ciphers", "set_ecdh_curve"):
        e.add(Contract(f"ext:sslctx.{m}", assumed=True, havoc=rec(m), raises=[(_ssl.SSLError, None, None)]))

    def wrap_res(c, a):
        x = a["self"]
        s_ = c.new_ext("sock", tls=True, ctx=x, inner=a["$args"][0], wrap_kwargs=dict(a["$kwargs"]))
        c.ghost["$wrapped"] = s_
        return s_
    e.add(Contract("ext:sslctx.wrap_socket", assumed=True, result=wrap_res, havoc=lambda c, a, old, k: None,
                   raises=[(_ssl.SSLError, None, None), (OSError, None, None)],
                   doc="context.wrap_socket(sock, server_hostname=...): TLS handshake; certificate chain / host name verification are performed by "
                       "OpenSSL exactly as verify_mode / check_hostname of the context say (NOT verified here: assumed contract of ssl)"))
    e.ext_attr_hooks["sslctx"] = lambda c, obj, attr, node: (_ for _ in ()).throw(Undecided(f"read of SSLContext.{attr}"))
    base_hasattr = e.ext_hasattr
    e.ext_hasattr = lambda c, obj, name: True if obj.kind == "sslctx" and name == "load_default_certs" else base_hasattr(c, obj, name)

    # ---- _ssl_socket(sock, user_sslopt, hostname) ----------------------------------------------------------------
    VALS = dict(cert_reqs="int", check_hostname="bool",
                ca_certs=("opt", "str"), ca_cert_path=("opt", "str"), server_hostname=("opt", "str"), ciphers="str", ecdh_curve="str",
                certfile=("opt", "str"), keyfile=("opt", "str"), password=("opt", "str"),
                cert_chain=("tuple", ["str", "str", "str"]), do_handshake_on_connect="bool", suppress_ragged_eofs="bool",
                # any protocol constant: only PROTOCOL_TLS_CLIENT contexts start with verification on, so nothing may rely on the defaults
                ssl_version="int")

    VERIF_KEYS = ("cert_reqs", "check_hostname", "ca_certs", "ca_cert_path", "server_hostname")

    def ssl_case(with_context, which="all-symbolic"):
        def case(c):
            ghost_net(c)
            user = {}
            for k, sh in VALS.items():
                if which == "verification-keys" and k not in VERIF_KEYS:
                    continue
                if which == "other-keys" and k in VERIF_KEYS:
                    continue
                user[k] = (True if which == "all-present" else smt.fresh(smt.Bool, f"has_{k}"), c.fresh(sh, k))
            if "cert_reqs" in user:
                cr_ = user["cert_reqs"][1].t
                c.assume(z3.Or(cr_ == CERT_NONE, cr_ == CERT_OPTIONAL, cr_ == CERT_REQUIRED))
            if with_context:
                user["context"] = (True, c.new_ext("sslctx", calls=[], given=True, verify_mode=c.fresh("int", "vm"), check_hostname=c.fresh("bool", "ch")))
            return dict(sock=c.new_ext("sock"), user_sslopt=c.alloc("dict", None, user), hostname=c.fresh("str", "hostname"))
        return case

    def uget(c, old, a, k):
        ent = old.cell(a["user_sslopt"]).data.get(k)
        return ent if ent is not None else (z3.BoolVal(False), None)

    def env_bundle():
        name = z3.StringVal("WEBSOCKET_CLIENT_CA_BUNDLE")
        from .url import env_has, env_val
        return env_has(name), env_val(name)

    def tls_post(c, old, a, res):
        if not (isinstance(res, Ext) and res.attrs.get("tls")):
            return z3.BoolVal(False)
        if c.mode == "assume" and "ctx" not in res.attrs:
            return z3.BoolVal(True)  # at a call site the result only records what was wrapped and for which name
        ctx = res.attrs["ctx"]
        kw = res.attrs["wrap_kwargs"]
        same = lambda x, y: (lambda r: z3.BoolVal(r) if isinstance(r, bool) else r)(e.interp.same_value(c, x, y))
        conds = [z3.BoolVal(res.attrs["inner"] is a["sock"])]
        # server name indication / name to verify: the option if truthy, else the URL's host
        p_sh, v_sh = uget(c, old, a, "server_hostname")
        sh_set = z3.And(z3.BoolVal(p_sh) if isinstance(p_sh, bool) else p_sh, z3.Not(zn(v_sh)), z3.Length(z(unopt(v_sh))) > 0) \
            if v_sh is not None and unopt(v_sh) is not None else z3.BoolVal(False)
        want_host = z3.If(sh_set, z(unopt(v_sh)), z(a["hostname"])) if v_sh is not None and unopt(v_sh) is not None else z(a["hostname"])
        got_host = c.force(kw.get("server_hostname"))
        conds.append(z(got_host) == want_host if tag_of(got_host) == "str" else z3.BoolVal(False))
        if ctx.attrs.get("given"):
            # a caller-supplied context is used as it is
            conds.append(z3.BoolVal(not ctx.attrs.get("$sets") and not ctx.attrs["calls"]))
            return z3.And(*conds)
        p_cr, v_cr = uget(c, old, a, "cert_reqs")
        p_ch, v_ch = uget(c, old, a, "check_hostname")
        B = lambda p: z3.BoolVal(p) if isinstance(p, bool) else p
        cr = z3.If(B(p_cr), z(v_cr, "int"), CERT_REQUIRED) if v_cr is not None else z3.IntVal(CERT_REQUIRED)   # chain verification on unless relaxed
        ch = z3.If(B(p_ch), z(v_ch, "bool"), z3.BoolVal(True)) if v_ch is not None else z3.BoolVal(True)         # name check on unless relaxed
        vm, chn = ctx.attrs.get("verify_mode"), ctx.attrs.get("check_hostname")
        conds.append(z(vm, "int") == cr)
        # OpenSSL cannot check a name against an unverified certificate: with CERT_NONE the name check is necessarily off
        conds.append(z(chn, "bool") == z3.If(cr == CERT_NONE, z3.BoolVal(False), ch))
        # trust anchors: the caller's file / directory, else the bundle variable, else the system defaults (when verifying)
        calls = ctx.attrs["calls"]
        lv = [x for x in calls if x[0] == "load_verify_locations"]
        ld = [x for x in calls if x[0] == "load_default_certs"]
        conds.append(z3.BoolVal(len(lv) + len(ld) <= 1))
        conds.append(z3.Implies(cr == CERT_NONE, z3.BoolVal(not lv and not ld)))
        conds.append(z3.Implies(cr != CERT_NONE, z3.BoolVal(len(lv) + len(ld) == 1)))
        # a CA file / directory given by the caller is the one loaded (the bundle variable only fills in what the caller left open)
        for key, kwname in (("ca_certs", "cafile"), ("ca_cert_path", "capath")):
            p_u, v_u = uget(c, old, a, key)
            if v_u is None:
                continue
            un, ut = opt_str(v_u)
            user_set = z3.And(B(p_u), z3.Not(un), z3.Length(ut) > 0)
            if lv:
                gn, gt = opt_str(c.force(lv[0][2].get(kwname)))
                conds.append(z3.Implies(user_set, z3.And(z3.Not(gn), gt == ut)))
            else:
                conds.append(z3.Implies(z3.And(cr != CERT_NONE, user_set), z3.BoolVal(False)))
        return z3.And(*conds)

    def opt_str(v):
        """(is None, string term) of a possibly lazy optional str value."""
        from pyvc.values import IteV
        if isinstance(v, IteV):
            an, at_ = opt_str(v.a)
            bn, bt = opt_str(v.b)
            return z3.If(v.cond, an, bn), z3.If(v.cond, at_, bt)
        if isinstance(v, OptV):
            n_, t_ = opt_str(v.val)
            return z3.Or(v.isnone, n_), t_
        if v is None:
            return z3.BoolVal(True), z3.StringVal("")
        if isinstance(v, str):
            return z3.BoolVal(False), z3.StringVal(v)
        return z3.BoolVal(False), z(v)
    TLS_EXC = [_ssl.SSLError, OSError, ValueError]
    e.add(Contract(H + "_ssl_socket", cases=[("verification-keys", ssl_case(False, "verification-keys")), ("other-keys", ssl_case(False, "other-keys")),
                                             ("all-keys-present", ssl_case(False, "all-present")),
                                             ("caller-context", ssl_case(True, "verification-keys"))],
                   ensures=tls_post, result=lambda c, a: c.new_ext("sock", tls=True), havoc=lambda c, a, old, k: None,
                   raises=[(k_, None, None) for k_ in TLS_EXC], props=("C11",),
                   doc="the transport returned is context.wrap_socket(the given socket, server_hostname = option or URL host); without a caller "
                       "context: verify_mode = cert_reqs option, default CERT_REQUIRED; check_hostname = option, default True (both switched off "
                       "together only for CERT_NONE with check_hostname false); trust anchors loaded exactly when verifying; a caller's context "
                       "is used untouched"))


# ===================================================================== proxy tunnel, resolver, connect (C18, C19, C11)
def install_tunnel_connect(e):
    import websocket._url as url_mod
    SK = "websocket._socket:"
    U = "websocket._url:"
    Sv, Cc = z3.StringVal, z3.Concat

    # ---- _tunnel(sock, host, port, auth) ---------------------------------------------------------------
    def tn_case(authkind):
        def case(c):
            ghost_net(c)
            auth = None
            if authkind == "auth":
                auth = (c.fresh("str", "user"), c.fresh(("opt", "str"), "password"))
            return dict(sock=c.new_ext("sock"), host=c.fresh("str", "host"), port=c.fresh("int", "port"), auth=auth)
        return case

    def port_str(p):
        return z3.If(p >= 0, z3.IntToStr(p), Cc(Sv("-"), z3.IntToStr(-p)))

    def connect_request(c, a):
        h, p = z(a["host"]), z(a["port"], "int")
        hp = Cc(h, Sv(":"), port_str(p))
        head = Cc(Sv("CONNECT "), hp, Sv(" HTTP/1.1\r\n"), Sv("Host: "), hp, Sv("\r\n"))
        auth = a["auth"]
        if auth is None:
            return Cc(head, Sv("\r\n"))
        user, pw = auth
        cred = z(user)
        if unopt(pw) is not None:
            has_pw = z3.And(z3.Not(zn(pw)), z3.Length(z(unopt(pw))) > 0)
            cred = z3.If(has_pw, Cc(z(user), Sv(":"), z(unopt(pw))), z(user))
        enc = _M.str_replace_all(smt.utf8_dec(_M.bytes_strip(e.b64(smt.utf8_enc(cred)))), Sv("\n"), Sv(""))
        with_auth = Cc(head, Sv("Proxy-Authorization: Basic "), enc, Sv("\r\n"), Sv("\r\n"))
        return z3.If(z3.Length(z(user)) > 0, with_auth, Cc(head, Sv("\r\n")))

    def tn_post(c, old, a, res):
        sent = c.ghost.get("$last_send_data")
        st = c.ghost.get("$tunnel_status")
        if c.mode == "assume":
            return z3.BoolVal(res is a["sock"])  # at a call site: the same socket, now tunnelled (ghost $tunnelled)
        if sent is None or tag_of(sent) != "str" or st is None:
            return z3.BoolVal(False)
        return z3.And(z3.BoolVal(res is a["sock"]), z(sent) == connect_request(c, a), z3.BoolVal(c.ghost.get("$last_send_sock") is a["sock"]),
                      z3.Not(zn(st)), z(unopt(st), "int") == 200)
    e.after_call[("_tunnel", "read_headers")] = lambda c, fr, r: c.ghost.__setitem__("$tunnel_status", r[0])

    def tn_havoc(c, a, old, k):
        for g, tg in (("rpos", "int"), ("rx_calls", "int"), ("wire", "bytes"), ("tx_calls", "int")):
            if g in c.ghost:
                c.ghost[g] = c.fresh(tg, g)
        c.ghost["$line_start"] = c.fresh("int", "line_start")
        c.ghost["$tunnelled"] = a["sock"]
    TN_EXC = [X.WebSocketProxyException, X.WebSocketConnectionClosedException, X.WebSocketTimeoutException, OSError, UnicodeEncodeError]
    e.add(Contract(H + "_tunnel", cases=[("no-auth", tn_case("none")), ("basic-auth", tn_case("auth"))], ensures=tn_post,
                   result=lambda c, a: a["sock"], havoc=tn_havoc, raises=[(k_, None, None) for k_ in TN_EXC],
                   modifies=lambda c, a: ["ghost:rpos", "ghost:rx_calls", "ghost:wire", "ghost:tx_calls", "ghost:$line_start"], props=("C19",),
                   doc="writes exactly `CONNECT host:port HTTP/1.1`, `Host: host:port`, optionally `Proxy-Authorization: Basic b64(user[:password])`, "
                       "and an empty line to the given socket; returns that socket only for a reply status of 200; anything else (also a "
                       "malformed reply) raises WebSocketProxyException"))

    # ---- socket.getaddrinfo (assumed) and _get_addrinfo_list --------------------------------------------------
    def gai_res(c, a):
        args = a["$args"]
        c.ghost["$resolved"] = (args[0], args[1])
        c.ghost["$resolved_how"] = tuple(args[2:5])
        n = c.fresh("int", "n_addresses")
        c.assume(n.t >= 0)
        return addrinfo_seq(c, n)
    e.add(Contract("socket:getaddrinfo", assumed=True, result=gai_res, havoc=lambda c, a, old, k: None,
                   raises=[(_socket.gaierror, None, None)], doc="socket.getaddrinfo(host, port, ...): the resolver; records what was asked"))

    def pi_obj(c, kind):
        d = dict(proxy_host=None, proxy_port=0, auth=None, no_proxy=None, proxy_protocol="http")
        if kind == "option":
            d.update(proxy_host=c.fresh("str", "proxy_host"), proxy_port=c.fresh("int", "proxy_port"),
                     auth=c.fresh(("opt", ("tuple", ["str", "str"])), "proxy_auth"), proxy_timeout=None)
        return c.alloc("obj", http_mod.proxy_info, d)

    def gal_case(kind):
        def case(c):
            ghost_net(c)
            return dict(hostname=c.fresh("str", "hostname"), port=c.fresh("int", "port"), is_secure=c.fresh("bool", "is_secure"), proxy=pi_obj(c, kind))
        return case
    e.after_call[("_get_addrinfo_list", "get_proxy_info")] = lambda c, fr, r: c.ghost.__setitem__("$proxy_choice", r)

    def gal_post(c, old, a, res):
        lst, tunnel, auth = res
        ch = c.ghost.get("$proxy_choice")
        rs = c.ghost.get("$resolved")
        if (ch is None or rs is None) and c.mode == "assume":
            return z3.BoolVal(True)  # at a call site only the shape of the result is relied upon
        if ch is None or rs is None:
            return z3.BoolVal(False)
        phost, pport, pauth = ch
        via = z3.And(z3.Not(zn(phost)), z3.Length(z(unopt(phost))) > 0) if unopt(phost) is not None else z3.BoolVal(False)
        same = lambda x, y: (lambda r: z3.BoolVal(r) if isinstance(r, bool) else r)(e.interp.same_value(c, x, y))
        pp = unopt(pport)
        pport_eff = z3.If(z3.And(z3.Not(zn(pport)), z(pp, "int") != 0), z(pp, "int"), 80) if pp is not None else z3.IntVal(80)
        direct = z3.And(same(rs[0], a["hostname"]), same(rs[1], a["port"]), z3.Not(z(tunnel, "bool")), zn(auth))
        proxied = z3.And(same(rs[0], phost), z(rs[1], "int") == pport_eff if tag_of(rs[1]) in ("int", "bool") else z3.BoolVal(False),
                         z(tunnel, "bool"), same(auth, pauth))
        # every address family (IPv4 and IPv6 literals and names alike), stream sockets over TCP
        how = c.ghost.get("$resolved_how", ())
        lit = lambda v: v if isinstance(v, int) and not isinstance(v, bool) else None
        how_ok = len(how) == 3 and lit(how[0]) == 0 and lit(how[1]) == int(_socket.SOCK_STREAM) and lit(how[2]) == int(_socket.SOL_TCP)
        return z3.And(z3.If(via, proxied, direct), z3.BoolVal(bool(how_ok)))
    e.add(Contract(H + "_get_addrinfo_list", cases=[("no-proxy-option", gal_case("none")), ("proxy-option", gal_case("option"))], ensures=gal_post,
                   result=lambda c, a: (addrinfo_seq(c, c.fresh("int", "n_addresses")), c.fresh("bool", "need_tunnel"), c.fresh(("opt", ("tuple", ["str", "str"])), "auth")),
                   havoc=lambda c, a, old, k: None,
                   raises=[(X.WebSocketAddressException, None, None), (X.WebSocketProxyException, None, None), (ValueError, None, None)], props=("C18", "C19"),
                   doc="asks get_proxy_info once; without a proxy resolves the target host and port itself (no tunnel); with one resolves the "
                       "proxy's host and port (80 if none) and reports that a CONNECT tunnel with the proxy's credentials is needed"))


def install_connect_body(e):
    """_http.connect: cases, post-conditions, verification of its body (C11, C18, C19)."""
    import websocket._socket as sm
    ct = e.contracts[H + "connect"]
    ssl_ct = e.contracts[H + "_ssl_socket"]
    gal_ct = e.contracts[H + "_get_addrinfo_list"]
    # richer results for the callees as seen from connect(): what was wrapped / resolved is recorded
    ssl_ct.result = lambda c, a: c.new_ext("sock", tls=True, inner=a["sock"], hostname_arg=a["hostname"], sslopt_arg=a["user_sslopt"])
    base_gal_havoc = gal_ct.havoc

    def gal_havoc(c, a, old, k):
        c.ghost["$gal_args"] = (a["hostname"], a["port"], a["is_secure"], a["proxy"])
        base_gal_havoc(c, a, old, k)
    gal_ct.havoc = gal_havoc
    e.after_call[("connect", "parse_url")] = lambda c, fr, r: c.ghost.__setitem__("$pu", r)
    e.after_call[("connect", "_open_socket")] = lambda c, fr, r: c.ghost.__setitem__("$opened", r)

    def pi_obj(c, kind):
        d = dict(proxy_host=None, proxy_port=0, auth=None, no_proxy=None, proxy_protocol="http")
        if kind != "none":
            d.update(proxy_host=c.fresh("str", "proxy_host"), proxy_port=c.fresh("int", "proxy_port"),
                     auth=c.fresh(("opt", ("tuple", ["str", "str"])), "proxy_auth"), proxy_timeout=None,
                     proxy_protocol="http" if kind == "http" else "socks5")
        return c.alloc("obj", http_mod.proxy_info, d)

    def cn_case(pkind, own):
        def case(c):
            ghost_net(c)
            so = c.alloc("obj", sm.sock_opt, dict(sockopt=(), sslopt=c.alloc("dict", None, {}), timeout=c.fresh(("opt", "real"), "timeout")))
            return dict(url=c.fresh("str", "url"), options=so, proxy=pi_obj(c, pkind), socket=c.new_ext("sock", given=True) if own else None)
        return case

    def same(c, x, y):
        r = e.interp.same_value(c, x, y)
        return z3.BoolVal(r) if isinstance(r, bool) else r

    def cn_post(c, old, a, res):
        sk, triple = res
        pu = c.ghost.get("$pu")
        if pu is None:
            return z3.BoolVal(False)
        host, port, resource, secure = pu
        conds = [same(c, triple[0], host), same(c, triple[1], port), same(c, triple[2], resource), z3.Contains(z(a["url"]), z3.StringVal(":"))]
        if a["socket"] is not None:
            # a caller-supplied transport is handed back untouched
            conds.append(z3.BoolVal(sk is a["socket"]))
            return z3.And(*conds)
        ga = c.ghost.get("$gal_args")
        opened = c.ghost.get("$opened")
        if ga is None or opened is None or not isinstance(sk, Ext):
            return z3.BoolVal(False)
        # the resolver is asked for the URL's own host, port and security flag
        conds += [same(c, ga[0], host), same(c, ga[1], port), same(c, ga[2], secure), z3.BoolVal(ga[3] is a["proxy"])]
        is_tls = bool(sk.attrs.get("tls"))
        conds.append(z(secure, "bool") == z3.BoolVal(is_tls))     # TLS exactly for wss
        if is_tls:
            # what is wrapped is the socket just opened (after the CONNECT exchange, if any), with the origin's host name
            conds += [z3.BoolVal(sk.attrs.get("inner") is opened), same(c, sk.attrs.get("hostname_arg"), host),
                      z3.BoolVal(sk.attrs.get("sslopt_arg") is old.getf(a["options"], "sslopt"))]
        else:
            conds.append(z3.BoolVal(sk is opened))
        tun = c.ghost.get("$tunnelled")
        need = c.ghost.get("$need_tunnel")
        if need is not None:
            conds.append(z(need, "bool") == z3.BoolVal(tun is opened))
        conds.append(z(c.ghost["opened_handles"]) - z(c.ghost["closed_handles"]) == z(old.ghost["opened_handles"]) - z(old.ghost["closed_handles"]) + 1)
        return z3.And(*conds)
    e.after_call[("connect", "_get_addrinfo_list")] = lambda c, fr, r: c.ghost.__setitem__("$need_tunnel", r[1])

    def cn_fail(c, old, a, exc):
        return z(c.ghost["opened_handles"]) - z(c.ghost["closed_handles"]) == z(old.ghost["opened_handles"]) - z(old.ghost["closed_handles"])
    ct.cases = [(f"proxy-{pk},{'own-socket' if own else 'resolve'}", cn_case(pk, own)) for pk in ("none", "http", "socks") for own in (False, True)]
    ct.ensures_verify = cn_post
    base_ens = ct.ensures
    ct.ensures = lambda c, old, a, res: cn_post(c, old, a, res) if c.mode == "prove" else base_ens(c, old, a, res)
    ct.raises = [(cls, w, cn_fail) for (cls, w, p) in ct.raises] + [(_ssl.SSLError, None, cn_fail), (UnicodeEncodeError, None, cn_fail)]
    ct.modifies = lambda c, a: ["ghost:" + g for g in ("opened_handles", "closed_handles", "connect_attempts", "rpos", "rx_calls", "wire", "tx_calls", "$line_start")]
    ct.doc += "; the triple returned is parse_url(url); the resolver is asked for that host/port; the socket is wrapped in TLS exactly when the URL " \
              "is wss, after the CONNECT exchange when a proxy tunnel is needed, with the origin's host name"
