"""Contracts for the receive path: frame_buffer, continuous_frame, WebSocket.recv* (C02-C07, C13, C17)."""
import socket as _socket
import ssl as _ssl
import z3
from pyvc import smt
from pyvc.engine import Contract
from pyvc.values import SV, Ref, Ext, ExcVal, Rope, BoundMethod, z, tag_of
from pyvc.smt import slen, at, slc, cat, unit, Int, Sq
from . import spec
from .abnf import abnf_shape, F, frame_ok, header_shaped
import websocket._exceptions as X
import websocket._abnf as abnf_mod

A = "websocket._abnf:"
MAXREQ = 16384
RECV_EXC = [X.WebSocketConnectionClosedException, X.WebSocketTimeoutException, OSError]


def fb_shape(skip):
    return ("obj", "websocket._abnf.frame_buffer", dict(
        recv=("const", None), skip_utf8_validation=("const", skip), recv_buffer=("rope",),
        header=("opt", ("tuple", ["int"] * 7)), length=("opt", "int"),
        mask_value=("oneof", ["none", "bytes", ("const", "")]), lock=("ext", "Lock")))


def fb_idle(skip):
    return ("obj", "websocket._abnf.frame_buffer", dict(
        recv=("const", None), skip_utf8_validation=("const", skip), recv_buffer=("list", []),
        header="none", length="none", mask_value="none", lock=("ext", "Lock")))


def cf_shape(fire, skip):
    return ("obj", "websocket._abnf.continuous_frame", dict(
        fire_cont_frame=("const", fire), skip_utf8_validation=("const", skip),
        cont_data=("opt", ("list", ["int", "bytes"])), recving_frames=("opt", "int")))


def cf_idle(fire, skip):
    return ("obj", "websocket._abnf.continuous_frame", dict(
        fire_cont_frame=("const", fire), skip_utf8_validation=("const", skip), cont_data="none", recving_frames="none"))


def ghost_rx(c):
    g = c.ghost
    if "rx" in g:
        return
    g["rx"] = c.fresh("bytes", "rx")
    g["rpos"] = c.fresh("int", "rpos")
    g["rx_calls"] = c.fresh("int", "rx_calls")
    c.assume(z3.And(z(g["rpos"]) >= 0, z(g["rpos"]) <= slen(z(g["rx"])), z(g["rx_calls"]) >= 0))


def joined(c, fb, view=None):
    v = view or c
    rb = v.getf(fb, "recv_buffer")
    d = v.cell(rb).data
    if isinstance(d, Rope):
        return d.joined
    return smt.cat_all([z(x) for x in d])


def ppos(c, fb, view=None):
    """Offset in rx of the first byte the parser has not consumed yet."""
    v = view or c
    return z(v.ghost["rpos"]) - slen(joined(c, fb, view))


def RB(c, fb, view=None):
    """Buffer invariant: the buffered bytes are exactly rx[p:rpos]."""
    v = view or c
    rx, rpos = z(v.ghost["rx"]), z(v.ghost["rpos"])
    p = ppos(c, fb, view)
    return z3.And(0 <= p, p <= rpos, rpos <= slen(rx), c.eq(joined(c, fb, view), slc(rx, p, rpos)))


def FB(c, fb, view=None):
    """Representation invariant of frame_buffer against the ghost stream (DESIGN 5 C02), with ghost fstart."""
    v = view or c
    rx, f = z(v.ghost["rx"]), z(v.ghost["fstart"])
    d = spec.Dec(rx, f)
    p = ppos(c, fb, view)
    hdr, ln, mk = v.getf(fb, "header"), v.getf(fb, "length"), v.getf(fb, "mask_value")
    parts = [RB(c, fb, view), 0 <= f]
    rpos = z(v.ghost["rpos"])
    # the parser never holds a byte beyond the stage it is reading (no over-read)
    if hdr is None:
        parts.append(z3.BoolVal(ln is None and mk is None))
        parts.append(p == f)
        parts.append(rpos <= f + 2)
        return z3.And(*parts)
    parts.append(f + 2 <= p)
    parts += [z(h, "int") == t for h, t in zip(hdr, d.header)]
    if ln is None:
        parts.append(z3.BoolVal(mk is None))
        parts.append(p == f + 2)
        parts.append(rpos <= d.keypos)
        return z3.And(*parts)
    parts.append(z(ln) == d.length)
    if mk is None:
        parts.append(p == d.keypos)
        parts.append(rpos <= d.paypos)
        return z3.And(*parts)
    if tag_of(mk) == "bytes":
        parts += [d.masked == 1, c.eq(z(mk), d.key), slen(z(mk)) == 4]
    else:
        parts += [d.masked == 0]
    parts.append(p == d.paypos)
    parts.append(rpos <= d.next)
    return z3.And(*parts)


def recv_owner(c, fb, view=None):
    r = (view or c).getf(fb, "recv")
    if isinstance(r, BoundMethod) and isinstance(r.self_, Ref):
        return r.self_
    return None


def chunk_post(c, old, res, k):
    """Transport hand-over: res = rx[rpos0 : rpos0+len res], 1 <= len res <= k, rpos advanced by len res."""
    rx, r0, r1 = z(old.ghost["rx"]), z(old.ghost["rpos"]), z(c.ghost["rpos"])
    return z3.And(slen(z(res)) >= 1, slen(z(res)) <= k, r1 == r0 + slen(z(res)), r1 <= slen(rx),
                  c.eq(z(res), slc(rx, r0, r1)), z(c.ghost["rx_calls"]) >= z(old.ghost["rx_calls"]) + 1)


def rpos_same(c, old):
    return z(c.ghost["rpos"]) == z(old.ghost["rpos"])


def owner_closed(c, ws):
    return z3.And(z3.BoolVal(c.getf(ws, "sock") is None), z3.Not(z(c.getf(ws, "connected"), "bool")))


def havoc_rx(c):
    c.ghost["rpos"] = c.fresh("int", "rpos")
    c.ghost["rx_calls"] = c.fresh("int", "rx_calls")


def install(e):
    _install_strict(e)
    install_frame(e)


def _install_strict(e):
    # ================================================================= receive callable handed to frame_buffer (assumed)
    def rf_havoc(c, a, old, k):
        havoc_rx(c)
    e.add(Contract("ext:recv_fn.__call__", assumed=True,
                   requires=lambda c, a: z3.And(z(a["$args"][0], "int") >= 1, z(a["$args"][0], "int") <= MAXREQ),
                   result=lambda c, a: c.fresh("bytes", "chunk"), havoc=rf_havoc,
                   ensures=lambda c, old, a, res: chunk_post(c, old, res, z(a["$args"][0], "int")),
                   raises=[(cls, None, lambda c, old, a, exc: rpos_same(c, old)) for cls in RECV_EXC],
                   doc="recv(k), 1 <= k <= 16384: some non-empty prefix (at most k bytes) of what the peer has sent and the library "
                       "has not yet taken; or connection-closed / timeout / OSError with nothing taken.  Chunk length and outcome "
                       "are unconstrained: this is the quantifier over all segmentations and timeout positions"))

    # ================================================================= frame_buffer.recv_strict
    def rs_case(c):
        ghost_rx(c)
        fb = c.fresh(fb_shape(False), "fb")
        c.setf(fb, "recv", c.new_ext("recv_fn"))
        return dict(self=fb, bufsize=c.fresh("int", "bufsize"))

    def rs_req(c, a):
        return z3.And(RB(c, a["self"]), z(a["bufsize"], "int") >= 0)

    def rs_post(c, old, a, res):
        fb, n = a["self"], z(a["bufsize"], "int")
        rx = z(old.ghost["rx"])
        p0 = ppos(c, fb, old)
        j0 = slen(joined(c, fb, old))
        return z3.And(RB(c, fb), c.eq(z(res), slc(rx, p0, p0 + n)), ppos(c, fb) == p0 + n,
                      # no over-read: unless more than n bytes were already buffered, nothing beyond them is taken
                      z3.Implies(j0 <= n, z(c.ghost["rpos"]) == p0 + n))

    def rs_fail(c, old, a, exc):
        fb = a["self"]
        p0, n = ppos(c, fb, old), z(a["bufsize"], "int")
        return z3.And(RB(c, fb), ppos(c, fb) == p0,
                      z3.Implies(slen(joined(c, fb, old)) <= n, z(c.ghost["rpos"]) <= p0 + n))

    def fb_mods(c, a, extra=()):
        fb = a["self"]
        m = [(fb, "recv_buffer"), "ghost:rpos", "ghost:rx_calls"] + [(fb, f) for f in extra]
        ws = recv_owner(c, fb)
        if ws is not None:
            m += [(ws, "sock"), (ws, "connected"), "ghost:closed_handles"]
        return m

    def owner_effects(c, a, old, k, closed_idx):
        fb = a["self"]
        ws = recv_owner(c, fb)
        if ws is not None and k == closed_idx:
            c.setf(ws, "sock", None)
            c.setf(ws, "connected", False)
            c.ghost["closed_handles"] = c.fresh("int", "closed_handles")

    def rs_havoc(c, a, old, k):
        fb = a["self"]
        c.setf(fb, "recv_buffer", c.fresh(("rope",), "recv_buffer"))
        havoc_rx(c)
        owner_effects(c, a, old, k, 1)

    def rs_inv(c, fr, entry):
        fb = fr.locals["self"]
        n, sh = z(fr.locals["bufsize"], "int"), z(fr.locals["shortage"], "int")
        return z3.And(RB(c, fb), sh == n - slen(joined(c, fb)), ppos(c, fb) == ppos(c, fb, entry),
                      z3.Implies(slen(joined(c, fb, entry)) <= n, sh >= 0))

    def rs_loop_havoc(c, fr, entry):
        fb = fr.locals["self"]
        c.setf(fb, "recv_buffer", c.fresh(("rope",), "recv_buffer"))
        havoc_rx(c)
    e.loop("frame_buffer.recv_strict", 0, inv=rs_inv, havoc=rs_loop_havoc, decreases=lambda c, fr: z(fr.locals["shortage"], "int"),
           modifies=lambda c, fr: [(fr.locals["self"], "recv_buffer")])
    e.add(Contract(A + "frame_buffer.recv_strict", cases=[("any", rs_case)], requires=rs_req, ensures=rs_post,
                   result=lambda c, a: c.fresh("bytes", "got"),
                   raises=[(cls, None, rs_fail) for cls in RECV_EXC],
                   modifies=lambda c, a: fb_mods(c, a), havoc=rs_havoc, props=("C02", "C03", "C13", "C17"),
                   doc="returns exactly rx[p:p+n]; consumes exactly n bytes; requests at most min(16384, shortage) per transport call "
                       "and never reads past the n-th byte; on a transport exception nothing buffered is lost (state kept)"))


def install_frame(e):
    """frame_buffer.recv_frame (stages inlined) and WebSocket.recv_frame / _recv."""
    # ghost statement: when the parser resets its stage flags the frame has been consumed completely
    def after_clear(c, fr, r):
        if "fstart" in c.ghost:
            d = spec.Dec(z(c.ghost["rx"]), z(c.ghost["fstart"]))
            c.ghost["fstart"] = SV("int", d.next)
    e.after_call[("frame_buffer.recv_frame", "clear")] = after_clear

    def rf_case(c):
        ghost_rx(c)
        c.ghost["fstart"] = c.fresh("int", "fstart")
        fb = c.fresh(fb_shape(c.fresh("bool", "skip")), "fb")
        c.setf(fb, "recv", c.new_ext("recv_fn"))
        return dict(self=fb)

    def stage_clear(c, fb):
        return z3.BoolVal(c.getf(fb, "header") is None and c.getf(fb, "length") is None and c.getf(fb, "mask_value") is None)

    def consumed(c, old, fb):
        d = spec.Dec(z(old.ghost["rx"]), z(old.ghost["fstart"]))
        return z3.And(z(c.ghost["fstart"]) == d.next, stage_clear(c, fb), RB(c, fb), ppos(c, fb) == d.next,
                      z(c.ghost["rpos"]) == d.next)  # nothing beyond the frame has been taken from the transport

    def rf_post(c, old, a, res):
        fb = a["self"]
        d = spec.Dec(z(old.ghost["rx"]), z(old.ghost["fstart"]))
        fin, r1, r2, r3, op, mv, data = F(c, res, "fin", "rsv1", "rsv2", "rsv3", "opcode", "mask_value", "data")
        return z3.And(consumed(c, old, fb), fin == d.fin, r1 == d.rsv1, r2 == d.rsv2, r3 == d.rsv3, op == d.opcode, mv == d.masked,
                      c.eq(data, d.payload), header_shaped(c, res),
                      frame_ok(c, res, old.getf(fb, "skip_utf8_validation"), "not_must_reject"))

    def rf_proto_when(c, old, a):
        d = spec.Dec(z(old.ghost["rx"]), z(old.ghost["fstart"]))
        skip = old.getf(a["self"], "skip_utf8_validation")
        return z3.Not(spec.rfc_ok(d.fin, d.rsv1, d.rsv2, d.rsv3, d.opcode, d.payload,
                                  z(skip, "bool") if not isinstance(skip, bool) else z3.BoolVal(skip), "must_accept"))

    def rf_proto(c, old, a, exc):
        return consumed(c, old, a["self"])

    def rf_fail(c, old, a, exc):
        return z3.And(FB(c, a["self"]), z(c.ghost["fstart"]) == z(old.ghost["fstart"]))

    def rf_result(c, a):
        return c.fresh(abnf_shape("bytes", "keysource"), "rframe")

    def rf_mods(c, a):
        fb = a["self"]
        m = [(fb, "recv_buffer"), (fb, "header"), (fb, "length"), (fb, "mask_value"), "ghost:rpos", "ghost:rx_calls", "ghost:fstart"]
        ws = recv_owner(c, fb)
        if ws is not None:
            m += [(ws, "sock"), (ws, "connected"), "ghost:closed_handles"]
        return m

    def rf_havoc(c, a, old, k):
        fb = a["self"]
        havoc_rx(c)
        if k in (0, 1):
            c.setf(fb, "recv_buffer", c.alloc("list", None, []))
            for f in ("header", "length", "mask_value"):
                c.setf(fb, f, None)
            c.ghost["fstart"] = c.fresh("int", "fstart")
        else:
            sh = fb_shape(False)[2]
            c.setf(fb, "recv_buffer", c.fresh(("rope",), "recv_buffer"))
            for f in ("header", "length", "mask_value"):
                c.setf(fb, f, c.fresh(sh[f], f))
            ws = recv_owner(c, fb)
            if ws is not None and k == 2:
                c.setf(ws, "sock", None)
                c.setf(ws, "connected", False)
                c.ghost["closed_handles"] = c.fresh("int", "closed_handles")
    e.add(Contract(A + "frame_buffer.recv_frame", cases=[("any-stage", rf_case)],
                   requires=lambda c, a: FB(c, a["self"]), ensures=rf_post, result=rf_result,
                   raises=[(X.WebSocketProtocolException, rf_proto_when, rf_proto)] + [(cls, None, rf_fail) for cls in RECV_EXC],
                   modifies=rf_mods, havoc=rf_havoc, props=("C02", "C03", "C05", "C12", "C13", "C17"),
                   doc="normal: the returned frame equals rfc_decode(rx, fstart) (flags, opcode, mask flag, unmasked payload), exactly the "
                       "frame's bytes are consumed (fstart' = next frame, parser holds no byte of a later frame) and the frame is RFC-admissible; "
                       "protocol exception: the frame is not admissible and was consumed completely; transport exception / timeout: "
                       "the representation invariant holds with fstart unchanged, so a retry resumes where it stopped"))
