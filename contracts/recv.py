"""Contracts for the receive path: frame_buffer, continuous_frame, WebSocket.recv* (C02-C07, C17)."""
import z3
from pyvc import smt
from pyvc.engine import Contract
from pyvc.values import SV, Ref, Ext, ExcVal, Rope, z, tag_of
from pyvc.smt import slen, at, slc, cat, unit, Int, Sq
from . import spec
import websocket._exceptions as X

A = "websocket._abnf:"


def fb_shape(skip):
    return ("obj", "websocket._abnf.frame_buffer", dict(
        recv=("const", None), skip_utf8_validation=("const", skip), recv_buffer=("rope",),
        header=("opt", ("tuple", ["int"] * 7)), length=("opt", "int"),
        mask_value=("oneof", ["none", "bytes", ("const", "")]), lock=("ext", "Lock")))


def cf_shape(fire, skip):
    return ("obj", "websocket._abnf.continuous_frame", dict(
        fire_cont_frame=("const", fire), skip_utf8_validation=("const", skip),
        cont_data=("opt", ("list", ["int", "bytes"])), recving_frames=("opt", "int")))


def fb_idle(skip):
    return ("obj", "websocket._abnf.frame_buffer", dict(
        recv=("const", None), skip_utf8_validation=("const", skip), recv_buffer=("list", []),
        header="none", length="none", mask_value="none", lock=("ext", "Lock")))


def cf_idle(fire, skip):
    return ("obj", "websocket._abnf.continuous_frame", dict(
        fire_cont_frame=("const", fire), skip_utf8_validation=("const", skip), cont_data="none", recving_frames="none"))


def install(e):
    pass
