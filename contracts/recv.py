"""Contracts for the receive path: frame_buffer, continuous_frame, WebSocket.recv* (C02-C07, C13, C17)."""
import socket as _socket
import ssl as _ssl
import z3
from pyvc import smt
from pyvc.engine import Contract
from pyvc.values import SV, Ref, Ext, ExcVal, Rope, BoundMethod, OptV, z, zn, unopt, isnone, tag_of
from pyvc.smt import slen, at, slc, cat, unit, Int, Sq
from . import spec
from .abnf import abnf_shape, F, frame_ok, header_shaped
import websocket._exceptions as X
import websocket._abnf as abnf_mod

A = "websocket._abnf:"
MAXREQ = 16384
RECV_EXC = [X.WebSocketConnectionClosedException, X.WebSocketTimeoutException, OSError]


def fb_shape(skip):
    return ("obj", "websocket._abnf.frame_buffer", dict(
        recv=("const", None), skip_utf8_validation=("const", skip), recv_buffer=("rope",),
        header=("opt", ("tuple", ["int"] * 7)), length=("opt", "int"),
        mask_value=("oneof", ["none", "bytes", ("const", "")]), lock=("ext", "Lock")))


def fb_idle(skip):
    return ("obj", "websocket._abnf.frame_buffer", dict(
        recv=("const", None), skip_utf8_validation=("const", skip), recv_buffer=("list", []),
        header="none", length="none", mask_value="none", lock=("ext", "Lock")))


def cf_shape(fire, skip):
    return ("obj", "websocket._abnf.continuous_frame", dict(
        fire_cont_frame=("const", fire), skip_utf8_validation=("const", skip),
        cont_data=("opt", ("list", ["int", "bytes"])), recving_frames=("opt", "int")))


def cf_idle(fire, skip):
    return ("obj", "websocket._abnf.continuous_frame", dict(
        fire_cont_frame=("const", fire), skip_utf8_validation=("const", skip), cont_data="none", recving_frames="none"))


def ghost_rx(c):
    g = c.ghost
    if "rx" in g:
        return
    g["rx"] = c.fresh("bytes", "rx")
    g["rpos"] = c.fresh("int", "rpos")
    g["rx_calls"] = c.fresh("int", "rx_calls")
    c.assume(z3.And(z(g["rpos"]) >= 0, z(g["rpos"]) <= slen(z(g["rx"])), z(g["rx_calls"]) >= 0, slen(z(g["rx"])) < 2 ** 63))


def joined(c, fb, view=None):
    v = view or c
    rb = v.getf(fb, "recv_buffer")
    d = v.cell(rb).data
    if isinstance(d, Rope):
        return d.joined
    return smt.cat_all([z(x) for x in d])


def ppos(c, fb, view=None):
    """Offset in rx of the first byte the parser has not consumed yet."""
    v = view or c
    return z(v.ghost["rpos"]) - slen(joined(c, fb, view))


def RB(c, fb, view=None):
    """Buffer invariant: the buffered bytes are exactly rx[p:rpos]."""
    v = view or c
    rx, rpos = z(v.ghost["rx"]), z(v.ghost["rpos"])
    p = ppos(c, fb, view)
    return z3.And(0 <= p, p <= rpos, rpos <= slen(rx), c.eq(joined(c, fb, view), slc(rx, p, rpos)))


_fb_cache = {}


def _ids(x):
    if isinstance(x, OptV):
        return ("opt", x.isnone.get_id() if z3.is_expr(x.isnone) else x.isnone) + (_ids(x.val),)
    if isinstance(x, SV):
        return (x.tag, x.t.get_id())
    if isinstance(x, tuple):
        return tuple(_ids(y) for y in x)
    if isinstance(x, Ref):
        return ("ref", x.id)
    return ("py", repr(x))


def FB(c, fb, view=None):
    v = view or c
    rb = v.cell(v.getf(fb, "recv_buffer")).data
    key = (c.mode, _ids(v.ghost["rx"]), _ids(v.ghost["fstart"]), _ids(v.ghost["rpos"]),
           ("rope", rb.joined.get_id()) if isinstance(rb, Rope) else tuple(_ids(x) for x in rb),
           _ids(v.getf(fb, "header")), _ids(v.getf(fb, "length")), _ids(v.getf(fb, "mask_value")))
    hit = _fb_cache.get(key)
    if hit is not None:
        return hit[0]
    r = _FB(c, fb, view)
    if len(_fb_cache) > 20000:
        _fb_cache.clear()
    # keep the terms alive so that ids are not reused
    _fb_cache[key] = (r, v.ghost["rx"], v.ghost["fstart"], v.ghost["rpos"], rb, v.getf(fb, "header"), v.getf(fb, "length"), v.getf(fb, "mask_value"))
    return r


def _FB(c, fb, view=None):
    """Representation invariant of frame_buffer against the ghost stream (DESIGN 5 C02), with ghost fstart.
    Stage fields may be lazily optional values, so the invariant is stated with implications on their None-ness."""
    v = view or c
    rx, f, rpos = z(v.ghost["rx"]), z(v.ghost["fstart"]), z(v.ghost["rpos"])
    d = spec.Dec(rx, f)
    p = ppos(c, fb, view)
    hdr, ln, mk = v.getf(fb, "header"), v.getf(fb, "length"), v.getf(fb, "mask_value")
    hn, lnn, mkn = zn(hdr), zn(ln), zn(mk)
    H, L, M = unopt(hdr), unopt(ln), unopt(mk)
    N = z3.Not
    parts = [RB(c, fb, view), 0 <= f]
    # the parser never holds a byte beyond the stage it is reading (no over-read)
    parts.append(z3.Implies(hn, z3.And(lnn, mkn, p == f, rpos <= f + 2)))
    if H is None:
        parts.append(hn)
        return z3.And(*parts)
    parts.append(z3.Implies(N(hn), z3.And(f + 2 <= p, *[z(h, "int") == t for h, t in zip(H, d.header)])))
    parts.append(z3.Implies(z3.And(N(hn), lnn), z3.And(mkn, p == f + 2, rpos <= d.keypos)))
    if L is None:
        parts.append(z3.Implies(N(hn), lnn))
        return z3.And(*parts)
    parts.append(z3.Implies(z3.And(N(hn), N(lnn)), z(L, "int") == d.length))
    parts.append(z3.Implies(z3.And(N(hn), N(lnn), mkn), z3.And(p == d.keypos, rpos <= d.paypos)))
    if M is None:
        parts.append(z3.Implies(z3.And(N(hn), N(lnn)), mkn))
        return z3.And(*parts)
    if tag_of(M) == "bytes":
        mf = z3.And(d.masked == 1, c.eq(z(M), d.key), slen(z(M)) == 4)
    else:
        mf = d.masked == 0
    parts.append(z3.Implies(z3.And(N(hn), N(lnn), N(mkn)), z3.And(mf, p == d.paypos, rpos <= d.next)))
    return z3.And(*parts)


def recv_owner(c, fb, view=None):
    r = (view or c).getf(fb, "recv")
    if isinstance(r, BoundMethod) and isinstance(r.self_, Ref):
        return r.self_
    return None


def chunk_post(c, old, res, k):
    """Transport hand-over: res = rx[rpos0 : rpos0+len res], 1 <= len res <= k, rpos advanced by len res."""
    rx, r0, r1 = z(old.ghost["rx"]), z(old.ghost["rpos"]), z(c.ghost["rpos"])
    return z3.And(slen(z(res)) >= 1, slen(z(res)) <= k, r1 == r0 + slen(z(res)), r1 <= slen(rx),
                  c.eq(z(res), slc(rx, r0, r1)), z(c.ghost["rx_calls"]) >= z(old.ghost["rx_calls"]) + 1)


def rpos_same(c, old):
    return z(c.ghost["rpos"]) == z(old.ghost["rpos"])


def same_handle(a, b):
    if a is b:
        return z3.BoolVal(True)
    na, nb = zn(a), zn(b)
    ua, ub = unopt(a), unopt(b)
    return z3.And(na == nb, z3.Implies(z3.Not(na), z3.BoolVal(ua is ub)))


def owner_closed(c, ws):
    return z3.And(zn(c.getf(ws, "sock")), z3.Not(z(c.getf(ws, "connected"), "bool")))


def owner_exc_post(c, old, fb, exc_cls):
    """Effect of a failed read on the WebSocket that owns the frame_buffer (through WebSocket._recv)."""
    ws = recv_owner(c, fb, old)
    if ws is None:
        return z3.BoolVal(True)
    if issubclass(exc_cls, X.WebSocketConnectionClosedException):
        had = z3.Not(zn(old.getf(ws, "sock")))
        return z3.And(owner_closed(c, ws), z(c.ghost["closed_handles"]) == z(old.ghost["closed_handles"]) + z3.If(had, 1, 0))
    return z3.And(same_handle(c.getf(ws, "sock"), old.getf(ws, "sock")),
                  z(c.getf(ws, "connected"), "bool") == z(old.getf(ws, "connected"), "bool"),
                  z(c.ghost["closed_handles"]) == z(old.ghost["closed_handles"]))


def havoc_rx(c):
    c.ghost["rpos"] = c.fresh("int", "rpos")
    c.ghost["rx_calls"] = c.fresh("int", "rx_calls")


def install(e):
    _install_strict(e)
    install_frame(e)
    install_transport(e)
    install_data(e)
    install_recv(e)


def _install_strict(e):
    # ================================================================= receive callable handed to frame_buffer (assumed)
    def rf_havoc(c, a, old, k):
        havoc_rx(c)
    e.add(Contract("ext:recv_fn.__call__", assumed=True,
                   requires=lambda c, a: z3.And(z(a["$args"][0], "int") >= 1, z(a["$args"][0], "int") <= MAXREQ),
                   result=lambda c, a: c.fresh("bytes", "chunk"), havoc=rf_havoc,
                   ensures=lambda c, old, a, res: chunk_post(c, old, res, z(a["$args"][0], "int")),
                   raises=[(cls, None, lambda c, old, a, exc: rpos_same(c, old)) for cls in RECV_EXC],
                   doc="recv(k), 1 <= k <= 16384: some non-empty prefix (at most k bytes) of what the peer has sent and the library "
                       "has not yet taken; or connection-closed / timeout / OSError with nothing taken.  Chunk length and outcome "
                       "are unconstrained: this is the quantifier over all segmentations and timeout positions"))

    # ================================================================= frame_buffer.recv_strict
    def rs_case(c):
        ghost_rx(c)
        fb = c.fresh(fb_shape(False), "fb")
        c.setf(fb, "recv", c.new_ext("recv_fn"))
        return dict(self=fb, bufsize=c.fresh("int", "bufsize"))

    def rs_req(c, a):
        return z3.And(RB(c, a["self"]), z(a["bufsize"], "int") >= 0)

    def rs_post(c, old, a, res):
        fb, n = a["self"], z(a["bufsize"], "int")
        rx = z(old.ghost["rx"])
        p0 = ppos(c, fb, old)
        j0 = slen(joined(c, fb, old))
        return z3.And(RB(c, fb), c.eq(z(res), slc(rx, p0, p0 + n)), ppos(c, fb) == p0 + n,
                      # no over-read: unless more than n bytes were already buffered, nothing beyond them is taken
                      z3.Implies(j0 <= n, z(c.ghost["rpos"]) == p0 + n))

    def rs_fail(c, old, a, exc):
        fb = a["self"]
        p0, n = ppos(c, fb, old), z(a["bufsize"], "int")
        return z3.And(RB(c, fb), ppos(c, fb) == p0,
                      z3.Implies(slen(joined(c, fb, old)) <= n, z(c.ghost["rpos"]) <= p0 + n),
                      owner_exc_post(c, old, fb, exc.cls))

    def fb_mods(c, a, extra=()):
        fb = a["self"]
        m = [(fb, "recv_buffer"), "ghost:rpos", "ghost:rx_calls"] + [(fb, f) for f in extra]
        ws = recv_owner(c, fb)
        if ws is not None:
            m += [(ws, "sock"), (ws, "connected"), "ghost:closed_handles"]
        return m

    def owner_effects(c, a, old, k, closed_idx):
        fb = a["self"]
        ws = recv_owner(c, fb)
        if ws is not None and k == closed_idx:
            c.setf(ws, "sock", None)
            c.setf(ws, "connected", False)
            c.ghost["closed_handles"] = c.fresh("int", "closed_handles")

    def rs_havoc(c, a, old, k):
        fb = a["self"]
        c.setf(fb, "recv_buffer", c.fresh(("rope",), "recv_buffer"))
        havoc_rx(c)
        owner_effects(c, a, old, k, 1)

    def rs_inv(c, fr, entry):
        fb = fr.locals["self"]
        n, sh = z(fr.locals["bufsize"], "int"), z(fr.locals["shortage"], "int")
        return z3.And(RB(c, fb), sh == n - slen(joined(c, fb)), ppos(c, fb) == ppos(c, fb, entry),
                      z3.Implies(slen(joined(c, fb, entry)) <= n, sh >= 0))

    def rs_loop_havoc(c, fr, entry):
        fb = fr.locals["self"]
        c.setf(fb, "recv_buffer", c.fresh(("rope",), "recv_buffer"))
        havoc_rx(c)
    e.loop("frame_buffer.recv_strict", 0, inv=rs_inv, havoc=rs_loop_havoc, decreases=lambda c, fr: z(fr.locals["shortage"], "int"),
           modifies=lambda c, fr: [(fr.locals["self"], "recv_buffer")])
    e.add(Contract(A + "frame_buffer.recv_strict", cases=[("any", rs_case)], requires=rs_req, ensures=rs_post,
                   result=lambda c, a: c.fresh("bytes", "got"),
                   raises=[(cls, None, rs_fail) for cls in RECV_EXC],
                   modifies=lambda c, a: fb_mods(c, a), havoc=rs_havoc, props=("C02", "C03", "C13", "C17"),
                   doc="returns exactly rx[p:p+n]; consumes exactly n bytes; requests at most min(16384, shortage) per transport call "
                       "and never reads past the n-th byte; on a transport exception nothing buffered is lost (state kept)"))


def install_frame(e):
    """frame_buffer.recv_frame (stages inlined) and WebSocket.recv_frame / _recv."""
    # ghost statement: when the parser resets its stage flags the frame has been consumed completely
    def after_clear(c, fr, r):
        if "fstart" in c.ghost:
            d = spec.Dec(z(c.ghost["rx"]), z(c.ghost["fstart"]))
            c.ghost["lastf"] = c.ghost["fstart"]
            c.ghost["fstart"] = SV("int", d.next)
    e.after_call[("frame_buffer.recv_frame", "clear")] = after_clear

    def rf_case(c):
        ghost_rx(c)
        c.ghost["fstart"] = c.fresh("int", "fstart")
        c.ghost["lastf"] = c.fresh("int", "lastf")
        fb = c.fresh(fb_shape(c.fresh("bool", "skip")), "fb")
        c.setf(fb, "recv", c.new_ext("recv_fn"))
        return dict(self=fb)

    def stage_clear(c, fb):
        return z3.And(zn(c.getf(fb, "header")), zn(c.getf(fb, "length")), zn(c.getf(fb, "mask_value")))

    def consumed(c, old, fb):
        d = spec.Dec(z(old.ghost["rx"]), z(old.ghost["fstart"]))
        return z3.And(z(c.ghost["fstart"]) == d.next, z(c.ghost["lastf"]) == z(old.ghost["fstart"]),
                      stage_clear(c, fb), RB(c, fb), ppos(c, fb) == d.next,
                      z(c.ghost["rpos"]) == d.next)  # nothing beyond the frame has been taken from the transport

    def rf_post(c, old, a, res):
        fb = a["self"]
        d = spec.Dec(z(old.ghost["rx"]), z(old.ghost["fstart"]))
        fin, r1, r2, r3, op, mv, data = F(c, res, "fin", "rsv1", "rsv2", "rsv3", "opcode", "mask_value", "data")
        return z3.And(consumed(c, old, fb), fin == d.fin, r1 == d.rsv1, r2 == d.rsv2, r3 == d.rsv3, op == d.opcode, mv == d.masked,
                      c.eq(data, d.payload), header_shaped(c, res),
                      frame_ok(c, res, old.getf(fb, "skip_utf8_validation"), "not_must_reject"))

    def rf_proto_when(c, old, a):
        d = spec.Dec(z(old.ghost["rx"]), z(old.ghost["fstart"]))
        skip = old.getf(a["self"], "skip_utf8_validation")
        return z3.Not(spec.rfc_ok(d.fin, d.rsv1, d.rsv2, d.rsv3, d.opcode, d.payload,
                                  z(skip, "bool") if not isinstance(skip, bool) else z3.BoolVal(skip), "must_accept"))

    def rf_proto(c, old, a, exc):
        return consumed(c, old, a["self"])

    def rf_fail(c, old, a, exc):
        return z3.And(FB(c, a["self"]), z(c.ghost["fstart"]) == z(old.ghost["fstart"]), z(c.ghost["lastf"]) == z(old.ghost["lastf"]),
                      owner_exc_post(c, old, a["self"], exc.cls))

    def rf_result(c, a):
        return c.fresh(abnf_shape("bytes", "keysource"), "rframe")

    def rf_mods(c, a):
        fb = a["self"]
        m = [(fb, "recv_buffer"), (fb, "header"), (fb, "length"), (fb, "mask_value"), "ghost:rpos", "ghost:rx_calls", "ghost:fstart", "ghost:lastf"]
        ws = recv_owner(c, fb)
        if ws is not None:
            m += [(ws, "sock"), (ws, "connected"), "ghost:closed_handles"]
        return m

    def rf_havoc(c, a, old, k):
        fb = a["self"]
        havoc_rx(c)
        if k in (0, 1):
            c.setf(fb, "recv_buffer", c.alloc("list", None, []))
            for f in ("header", "length", "mask_value"):
                c.setf(fb, f, None)
            c.ghost["fstart"] = c.fresh("int", "fstart")
            c.ghost["lastf"] = c.fresh("int", "lastf")
        else:
            sh = fb_shape(False)[2]
            c.setf(fb, "recv_buffer", c.fresh(("rope",), "recv_buffer"))
            for f in ("header", "length", "mask_value"):
                c.setf(fb, f, c.fresh(sh[f], f))
            ws = recv_owner(c, fb)
            if ws is not None and k == 2:
                c.setf(ws, "sock", None)
                c.setf(ws, "connected", False)
                c.ghost["closed_handles"] = c.fresh("int", "closed_handles")
    e.add(Contract(A + "frame_buffer.recv_frame", cases=[("any-stage", rf_case)],
                   requires=lambda c, a: FB(c, a["self"]), ensures=rf_post, result=rf_result,
                   raises=[(X.WebSocketProtocolException, rf_proto_when, rf_proto)] + [(cls, None, rf_fail) for cls in RECV_EXC],
                   modifies=rf_mods, havoc=rf_havoc, props=("C02", "C03", "C05", "C12", "C13", "C17"),
                   doc="normal: the returned frame equals rfc_decode(rx, fstart) (flags, opcode, mask flag, unmasked payload), exactly the "
                       "frame's bytes are consumed (fstart' = next frame, parser holds no byte of a later frame) and the frame is RFC-admissible; "
                       "protocol exception: the frame is not admissible and was consumed completely; transport exception / timeout: "
                       "the representation invariant holds with fstart unchanged, so a retry resumes where it stopped"))


def install_transport(e):
    """ext sock.recv (assumed), _socket.recv, _socket.recv_line, WebSocket._recv."""
    import websocket._core as core_mod
    SK, K = "websocket._socket:", "websocket._core:"

    def bump(c):
        c.ghost["rx_calls"] = SV("int", z(c.ghost["rx_calls"]) + 1)

    def sr_result(c, a):
        k = z(a["$args"][0], "int")
        res = c.fresh("bytes", "chunk")
        rx, r0 = z(c.ghost["rx"]), z(c.ghost["rpos"])
        n = slen(res.t)
        c.assume(z3.And(n >= 0, n <= k, r0 + n <= slen(rx), res.t == slc(rx, r0, r0 + n)))
        c.ghost["rpos"] = SV("int", r0 + n)
        bump(c)
        return res

    def exc_of(cls, args):
        def post(c, old, a, exc):
            bump(c)
            return ExcVal(cls, args(c) if callable(args) else args)
        return post
    EAGAIN = 11

    def other_errno(c):
        en = c.fresh("int", "errno")
        c.assume(z3.And(en.t != EAGAIN, en.t > 0))
        return (en, "error")
    e.add(Contract("ext:sock.recv", assumed=True,
                   requires=lambda c, a: z3.And(z(a["$args"][0], "int") >= 0, z(a["$args"][0], "int") <= MAXREQ),
                   result=sr_result, havoc=lambda c, a, old, k: None,
                   raises=[(_socket.timeout, None, exc_of(_socket.timeout, ("timed out",))),
                           (OSError, None, exc_of(OSError, (EAGAIN, "Resource temporarily unavailable"))),
                           (OSError, None, exc_of(OSError, other_errno)), (OSError, None, exc_of(OSError, ())),
                           (_ssl.SSLWantReadError, None, exc_of(_ssl.SSLWantReadError, (2, "want read"))),
                           (_ssl.SSLError, None, exc_of(_ssl.SSLError, ("The read operation timed out",))),
                           (_ssl.SSLError, None, exc_of(_ssl.SSLError, (1, "ssl failure")))],
                   doc="sock.recv(k), 1 <= k <= 16384 (C17: the request size may not be a peer-declared length): returns the next "
                       "0..k bytes of rx (empty = end of stream) and advances rpos; or raises timeout / OSError (incl. EAGAIN) / SSL errors "
                       "with rpos unchanged.  Chunk length and outcome unconstrained"))

    def srecv_case(sk):
        def case(c):
            ghost_rx(c)
            return dict(sock=c.new_ext("sock") if sk == "open" else None, bufsize=c.fresh("int", "bufsize"))
        return case

    def srecv_req(c, a):
        return z3.And(z(a["bufsize"], "int") >= 1, z(a["bufsize"], "int") <= MAXREQ)

    def no_sock(c, old, a):
        return z3.BoolVal(a["sock"] is None)

    def closed_post(c, old, a, exc):
        return z3.And(rpos_same(c, old), z3.Implies(no_sock(c, old, a), z(c.ghost["rx_calls"]) == z(old.ghost["rx_calls"])))
    e.add(Contract(SK + "recv", cases=[("open", srecv_case("open")), ("none", srecv_case("none"))], requires=srecv_req,
                   ensures=lambda c, old, a, res: z3.And(z3.Not(no_sock(c, old, a)), chunk_post(c, old, res, z(a["bufsize"], "int"))),
                   result=lambda c, a: c.fresh("bytes", "chunk"), havoc=lambda c, a, old, k: havoc_rx(c),
                   raises=[(X.WebSocketConnectionClosedException, None, closed_post),
                           (X.WebSocketTimeoutException, lambda c, old, a: z3.Not(no_sock(c, old, a)), lambda c, old, a, exc: rpos_same(c, old)),
                           (OSError, lambda c, old, a: z3.Not(no_sock(c, old, a)), lambda c, old, a, exc: rpos_same(c, old))],
                   normal_when=lambda c, old, a: z3.Not(no_sock(c, old, a)),
                   modifies=lambda c, a: ["ghost:rpos", "ghost:rx_calls"], props=("C03", "C08", "C17"),
                   doc="non-empty chunk = next bytes of rx; end of stream / no socket / select timeout => connection-closed; "
                       "transport timeout => WebSocketTimeoutException; in every failure nothing is consumed; no socket => no transport call"))

    # ---- recv_line -----------------------------------------------------------------------------
    def rl_case(c):
        ghost_rx(c)
        return dict(sock=c.new_ext("sock"))

    def rl_post(c, old, a, res):
        rx, r0, r1 = z(old.ghost["rx"]), z(old.ghost["rpos"]), z(c.ghost["rpos"])
        return z3.And(r1 > r0, r1 <= slen(rx), c.eq(z(res), slc(rx, r0, r1)), at(rx, r1 - 1) == 10,
                      spec.forall_range(r0, r1 - 1, lambda k: at(rx, k) != 10, pats=lambda k: [at(rx, k)]))

    def rl_inv(c, fr, entry):
        line = fr.locals["line"]
        rx, r0, r1 = z(entry.ghost["rx"]), z(entry.ghost["rpos"]), z(c.ghost["rpos"])
        j = joined_list(c, line)
        return z3.And(r1 >= r0, r1 <= slen(rx), c.eq(j, slc(rx, r0, r1)),
                      spec.forall_range(r0, r1, lambda k: at(rx, k) != 10, pats=lambda k: [at(rx, k)]))

    def joined_list(c, ref):
        d = c.cell(ref).data
        return d.joined if isinstance(d, Rope) else smt.cat_all([z(x) for x in d])

    def rl_havoc(c, fr, entry):
        fr.locals["line"] = c.fresh(("rope",), "line")
        havoc_rx(c)
    e.loop("recv_line", 0, inv=rl_inv, havoc=rl_havoc, shapes={"c": "bytes"}, modifies=lambda c, fr: [fr.locals["line"]],
           decreases=lambda c, fr: slen(z(c.ghost["rx"])) - z(c.ghost["rpos"]))
    e.add(Contract(SK + "recv_line", cases=[("open", rl_case)], ensures=rl_post, result=lambda c, a: c.fresh("bytes", "line"),
                   havoc=lambda c, a, old, k: havoc_rx(c),
                   raises=[(cls, None, None) for cls in RECV_EXC], modifies=lambda c, a: ["ghost:rpos", "ghost:rx_calls"],
                   props=("C03", "C17"),
                   doc="reads one byte per request up to and including the first LF: result = rx[rpos0 : i+1], nothing beyond it is consumed"))

    # ---- WebSocket._recv -----------------------------------------------------------------------
    from .core import mk_ws

    def _recv_case(c):
        ws = mk_ws(c)
        return dict(self=ws, bufsize=c.fresh("int", "bufsize"))

    def ws_closed_post(c, old, a, exc):
        ws = a["self"]
        had = z3.Not(zn(old.getf(ws, "sock")))
        return z3.And(rpos_same(c, old), owner_closed(c, ws),
                      z(c.ghost["closed_handles"]) == z(old.ghost["closed_handles"]) + z3.If(had, 1, 0))

    def keep_state(c, old, a, exc):
        ws = a["self"]
        return z3.And(rpos_same(c, old), same_handle(c.getf(ws, "sock"), old.getf(ws, "sock")),
                      z(c.getf(ws, "connected"), "bool") == z(old.getf(ws, "connected"), "bool"))

    def _recv_havoc(c, a, old, k):
        havoc_rx(c)
        if k == 1:
            c.setf(a["self"], "sock", None)
            c.setf(a["self"], "connected", False)
            c.ghost["closed_handles"] = c.fresh("int", "closed_handles")
    def sock_close(c, a, old, k):
        h = a["self"]
        if not h.attrs.get("closed"):
            h.attrs["closed"] = True
            if "closed_handles" in c.ghost:
                c.ghost["closed_handles"] = SV("int", z(c.ghost["closed_handles"]) + 1)
    e.add(Contract("ext:sock.close", assumed=True, havoc=sock_close,
                   doc="sock.close(): the handle is released (closed_handles' = closed_handles + 1 the first time; closing again is a no-op)"))
    e.add(Contract(K + "WebSocket._recv", cases=[("any", _recv_case)],
                   requires=lambda c, a: z3.And(z(a["bufsize"], "int") >= 1, z(a["bufsize"], "int") <= MAXREQ),
                   ensures=lambda c, old, a, res: z3.And(chunk_post(c, old, res, z(a["bufsize"], "int")),
                                                         z3.Not(zn(old.getf(a["self"], "sock")))),
                   result=lambda c, a: c.fresh("bytes", "chunk"), havoc=_recv_havoc,
                   raises=[(X.WebSocketConnectionClosedException, None, ws_closed_post),
                           (X.WebSocketTimeoutException, lambda c, old, a: z3.Not(zn(old.getf(a["self"], "sock"))), keep_state),
                           (OSError, lambda c, old, a: z3.Not(zn(old.getf(a["self"], "sock"))), keep_state)],
                   modifies=lambda c, a: ["ghost:rpos", "ghost:rx_calls", "ghost:closed_handles", (a["self"], "sock"), (a["self"], "connected")],
                   props=("C03", "C08", "C17"),
                   doc="like the transport read; connection-closed additionally releases the transport: sock' = None, connected' = False, "
                       "handle closed iff there was one; a timeout leaves connection state untouched"))


# ===================================================================== message level (C04, C05, C06, C07)
def ghost_msg(c):
    g = c.ghost
    if "m_open" in g:
        return
    g["m_open"] = c.fresh("bool", "m_open")
    g["m_op"] = c.fresh("int", "m_op")
    g["m_data"] = c.fresh("bytes", "m_data")
    g["fstart"] = c.fresh("int", "fstart")
    g["lastf"] = c.fresh("int", "lastf")
    g["last_seq_ok"] = c.fresh("bool", "last_seq_ok")
    g["seqf"] = SV("int", z3.IntVal(-1))
    c.assume(z(g["lastf"]) >= 0)
    c.assume(z3.Implies(z(g["m_open"]), z3.Or(z(g["m_op"]) == 1, z(g["m_op"]) == 2)))


def CF(c, cf, view=None):
    """Invariant of continuous_frame against the ghost fold state (m_open, m_op, m_data) of the data frames
    accepted so far (DESIGN 5 C04).  fire_cont_frame is concrete per contract case."""
    v = view or c
    mo, mop, md = z(v.ghost["m_open"], "bool"), z(v.ghost["m_op"]), z(v.ghost["m_data"])
    cd, rf = v.getf(cf, "cont_data"), v.getf(cf, "recving_frames")
    fire = v.getf(cf, "fire_cont_frame")
    RFv, CD = unopt(rf), unopt(cd)
    rf_truthy = z3.BoolVal(False) if RFv is None else z3.And(z3.Not(zn(rf)), z(RFv, "int") != 0)
    parts = [rf_truthy == mo, z3.Implies(mo, z3.Or(mop == 1, mop == 2))]
    if RFv is not None:
        parts.append(z3.Implies(mo, z(RFv, "int") == mop))
    if fire is True:
        parts.append(zn(cd))
    else:
        parts.append(zn(cd) == z3.Not(mo))
        if CD is not None:
            items = v.cell(CD).data
            parts.append(z3.Implies(z3.Not(zn(cd)), z3.And(z(items[0], "int") == mop, c.eq(z(items[1]), md),
                                                           z3.BoolVal(tag_of(items[1]) == "bytes"))))
    return z3.And(*parts)


def fold_step(c, op, fin, pay):
    """Spec-side fold over the data frames accepted by the sequencing rule (continuation only inside a message,
    new data frame only outside)."""
    g = c.ghost
    mo, mop, md = z(g["m_open"], "bool"), z(g["m_op"]), z(g["m_data"])
    isdata = z3.Or(op == 0, op == 1, op == 2)
    seq_ok = z3.If(op == 0, mo, z3.Not(mo))
    step = z3.And(isdata, seq_ok)
    g["m_data"] = SV("bytes", z3.If(step, z3.If(op == 0, cat(md, pay), pay), md))
    g["m_op"] = SV("int", z3.If(step, z3.If(op == 0, mop, op), mop))
    g["m_open"] = SV("bool", z3.If(step, fin == 0, mo))
    return isdata, seq_ok


def install_data(e):
    import websocket._core as core_mod
    from .core import mk_ws, lock_ok, TRANSPORT_EXC, WSI, ghost_close
    K = "websocket._core:"
    PONG_OK = lambda op, pay: z3.And(op == 9, slen(pay) <= 125)
    pongkey = z3.Function("pongkey", Int, Sq)  # ghost: key carried by the j-th pong written in this call

    def after_rf(c, fr, r):
        """ghost statement after each frame handed out by recv_frame inside recv_data_frame."""
        if "m_open" not in c.ghost or not isinstance(r, Ref):
            return
        fin, op, pay = z(c.getf(r, "fin")), z(c.getf(r, "opcode")), z(c.getf(r, "data"))
        isdata, seq_ok = fold_step(c, op, fin, pay)
        # was this frame legal at this point of the data/continuation sequence?  (used by the acceptance clause of C05)
        c.ghost["last_seq_ok"] = SV("bool", z3.Or(z3.Not(isdata), seq_ok))
        c.ghost["seqf"] = c.ghost["lastf"]
        pa, npi = z(c.ghost["pong_acc"]), z(c.ghost["npings"], "int")
        enc = spec.rfc_encode(1, 0, 0, 0, 10, 1, pongkey(npi), pay)
        c.ghost["pong_acc"] = SV("bytes", z3.If(PONG_OK(op, pay), cat(pa, enc), pa))
        c.ghost["npings"] = SV("int", npi + z3.If(PONG_OK(op, pay), 1, 0))
    e.after_call[("WebSocket.recv_data_frame", "recv_frame")] = after_rf

    def after_pong(c, fr, r):
        """ghost definition: the key of the j-th expected pong is the value drawn by the pong() call that answers the j-th ping
        (trace logging may draw further keys through frame.format(); those are not written anywhere)."""
        if "npings" in c.ghost:
            c.assume(pongkey(z(c.ghost["npings"], "int") - 1) == spec.keyfn(z(c.ghost["draws"]) - 1))
    e.after_call[("WebSocket.recv_data_frame", "pong")] = after_pong

    def after_send_close(c, fr, r):
        if "auto_close" in c.ghost:
            c.ghost["auto_close"] = SV("int", z(c.ghost["auto_close"]) + 1)
    e.after_call[("WebSocket.recv_data_frame", "send_close")] = after_send_close
    e.before_call[("WebSocket.recv_data_frame", "send_close")] = lambda c, fr, args: c.ghost.__setitem__("$dr_close", c.ghost["draws"])

    def rdf_case(fire):
        def case(c):
            ws = mk_ws(c, fire=fire, recv_state="any", dispatcher=None, keysrc="bytes")
            ghost_msg(c)
            ghost_close(c)
            c.ghost["pong_acc"] = SV("bytes", smt.empty)
            c.ghost["npings"] = 0
            return dict(self=ws, control_frame=c.fresh("bool", "control_frame"))
        return case

    def parts(c, a, view=None):
        v = view or c
        ws = a["self"]
        return ws, v.getf(ws, "frame_buffer"), v.getf(ws, "cont_frame")

    def rdf_req(c, a):
        ws, fb, cf = parts(c, a)
        return z3.And(FB(c, fb), CF(c, cf), WSI(c, ws))

    def wire_is(c, old, extra=None):
        w = cat(z(old.ghost["wire"]), z(c.ghost["pong_acc"]))
        if extra is not None:
            w = cat(w, extra)
        return c.eq(z(c.ghost["wire"]), w)

    def last(c):
        return spec.Dec(z(c.ghost["rx"]), z(c.ghost["lastf"]))

    def rdf_post(c, old, a, res):
        ws, fb, cf = parts(c, a)
        d = last(c)
        op_ret, frame = res
        fire = c.getf(cf, "fire_cont_frame")
        skip = z(c.getf(cf, "skip_utf8_validation"), "bool")
        ffin, fop, fdata = F(c, frame, "fin", "opcode", "data")
        mo, mop, md = z(c.ghost["m_open"], "bool"), z(c.ghost["m_op"]), z(c.ghost["m_data"])
        dr0 = z(old.ghost["draws"])
        npi = z(c.ghost["npings"], "int")
        conn0 = z(old.getf(ws, "connected"), "bool")
        ac0, ac1 = z(old.ghost["auto_close"]), z(c.ghost["auto_close"])
        isdata = z3.Or(d.opcode == 0, d.opcode == 1, d.opcode == 2)
        # the reply to the server's close frame: one close frame (1000) under the key drawn for it.  It is best effort - when the
        # transport refuses it (the peer is gone already) what reached the wire is a prefix of that frame and the close frame is
        # still returned: a failing reply never hides the frame by which the server ended the connection (C14, C15)
        kd = z(c.ghost["$dr_close"]) if (c.mode == "prove" and "$dr_close" in c.ghost) else \
            (z(c.ghost["draws"]) - 1 if c.mode == "prove" else smt.fresh(smt.Int, "close_key_draw"))
        close_reply = spec.rfc_encode(1, 0, 0, 0, 8, 1, spec.keyfn(kd), spec.be_bytes(z3.IntVal(1000), 2))
        base_w = cat(z(old.ghost["wire"]), z(c.ghost["pong_acc"]))
        nrep = slen(z(c.ghost["wire"])) - slen(base_w)
        reply_written = z3.And(nrep >= 0, nrep <= slen(close_reply), c.eq(z(c.ghost["wire"]), cat(base_w, slc(close_reply, 0, nrep))),
                               kd >= dr0 + npi)
        common = z3.And(FB(c, fb), CF(c, cf), fop == d.opcode, ffin == d.fin,
                        spec.rfc_ok(d.fin, d.rsv1, d.rsv2, d.rsv3, d.opcode, d.payload, skip, "not_must_reject"))
        if fire is True:
            data_case = z3.And(z(op_ret, "int") == d.opcode, c.eq(fdata, d.payload))
        else:
            data_case = z3.And(d.fin == 1, z3.Not(mo), z(op_ret, "int") == mop, z3.Or(mop == 1, mop == 2), c.eq(fdata, md),
                               z3.Implies(z3.And(mop == 1, z3.Not(skip)), smt.wf_utf8(md)))
        ctl_case = z3.And(z(op_ret, "int") == d.opcode, c.eq(fdata, d.payload))
        return z3.And(
            common,
            z3.Implies(isdata, z3.And(data_case, wire_is(c, old))),
            # a close frame is answered once: only while the connection is still marked connected (no close sent yet)
            z3.Implies(z3.And(d.opcode == 8, conn0),
                       z3.And(ctl_case, reply_written, z3.Implies(nrep == slen(close_reply), z(c.ghost["draws"]) >= dr0 + npi + 1),
                              z3.Not(z(c.getf(ws, "connected"), "bool")), ac1 == ac0 + z3.If(nrep == slen(close_reply), 1, 0))),
            z3.Implies(z3.And(d.opcode == 8, z3.Not(conn0)),
                       z3.And(ctl_case, wire_is(c, old),
                              z3.Not(z(c.getf(ws, "connected"), "bool")), ac1 == ac0)),
            z3.Implies(d.opcode != 8, z3.And(ac1 == ac0, z(c.getf(ws, "connected"), "bool") == conn0)),
            WSI(c, ws), same_handle(c.getf(ws, "sock"), old.getf(ws, "sock")),
            z(c.ghost["closed_handles"]) == z(old.ghost["closed_handles"]),
            z3.Implies(z3.Or(d.opcode == 9, d.opcode == 10),
                       z3.And(z(a["control_frame"], "bool"), ctl_case, wire_is(c, old))),
            z3.Or(isdata, d.opcode == 8, d.opcode == 9, d.opcode == 10))

    def rdf_proto_when(c, old, a):
        return True

    def tr_same(c, old, ws):
        return z3.And(same_handle(c.getf(ws, "sock"), old.getf(ws, "sock")), z(c.ghost["closed_handles"]) == z(old.ghost["closed_handles"]))

    def rdf_proto(c, old, a, exc):
        # the offending frame was consumed; reassembly state and parser state stay consistent; and the frame really was
        # inadmissible (RFC-admissible frames in a legal sequence are never refused)
        ws, fb, cf = parts(c, a)
        d = last(c)
        skip = z(c.getf(cf, "skip_utf8_validation"), "bool")
        # acceptance (C05): a protocol exception is raised only for a frame RFC 6455 does not admit, or one that is illegal at this
        # point of the data/continuation sequence - never for an admissible frame in a legal sequence (e.g. a 125-byte ping)
        admissible = spec.rfc_ok(d.fin, d.rsv1, d.rsv2, d.rsv3, d.opcode, d.payload, skip, "must_accept")
        judged = z(c.ghost["seqf"]) == z(c.ghost["lastf"])
        refused_rightly = z3.If(judged, z3.Not(z3.And(admissible, z(c.ghost["last_seq_ok"], "bool"))), z3.Not(admissible))
        return z3.And(FB(c, fb), CF(c, cf), WSI(c, ws), tr_same(c, old, ws), refused_rightly)

    def rdf_payload(c, old, a, exc):
        ws, fb, cf = parts(c, a)
        fire = c.getf(cf, "fire_cont_frame")
        skip = z(c.getf(cf, "skip_utf8_validation"), "bool")
        mop, md = z(c.ghost["m_op"]), z(c.ghost["m_data"])
        return z3.And(FB(c, fb), CF(c, cf), z3.BoolVal(fire is not True), mop == 1, z3.Not(skip), z3.Not(smt.wf_utf8(md)),
                      z3.Not(z(c.ghost["m_open"], "bool")), WSI(c, ws), tr_same(c, old, ws))

    def rdf_fail(c, old, a, exc):
        ws, fb, cf = parts(c, a)
        if issubclass(exc.cls, X.WebSocketConnectionClosedException):
            had = z3.Not(zn(old.getf(ws, "sock")))
            # lost while reading: transport released; refused while writing the pong / close reply: transport untouched
            tr = z3.Or(z3.And(owner_closed(c, ws), z(c.ghost["closed_handles"]) == z(old.ghost["closed_handles"]) + z3.If(had, 1, 0)),
                       z3.And(same_handle(c.getf(ws, "sock"), old.getf(ws, "sock")), z(c.ghost["closed_handles"]) == z(old.ghost["closed_handles"])))
        else:
            tr = z3.And(same_handle(c.getf(ws, "sock"), old.getf(ws, "sock")), z(c.ghost["closed_handles"]) == z(old.ghost["closed_handles"]))
        # no transport failure comes out of a call that consumed a close frame: the frame is delivered whatever happens to the reply
        not_after_close = z3.Not(z3.And(z(c.ghost["lastf"]) != z(old.ghost["lastf"]), last(c).opcode == 8))
        return z3.And(FB(c, fb), CF(c, cf), WSI(c, ws), z(c.ghost["auto_close"]) <= z(old.ghost["auto_close"]) + 1, tr, not_after_close)

    def rdf_inv(c, fr, entry):
        ws = fr.locals["self"]
        fb, cf = c.getf(ws, "frame_buffer"), c.getf(ws, "cont_frame")
        return z3.And(FB(c, fb), CF(c, cf), wire_is(c, entry), WSI(c, ws),
                      z(c.ghost["auto_close"]) == z(entry.ghost["auto_close"]), tr_same(c, entry, ws),
                      z(c.getf(ws, "connected"), "bool") == z(entry.getf(ws, "connected"), "bool"),
                      z(c.ghost["draws"]) >= z(entry.ghost["draws"]) + z(c.ghost["npings"], "int"), z(c.ghost["npings"], "int") >= 0,
                      # a close frame ends the call: whatever was consumed so far in this call was not one
                      z3.Or(z(c.ghost["lastf"]) == z(entry.ghost["lastf"]), last(c).opcode != 8))

    GH = ["rpos", "rx_calls", "fstart", "lastf", "wire", "tx_calls", "draws", "m_open", "m_op", "m_data", "pong_acc", "npings", "auto_close",
          "last_seq_ok", "seqf"]

    def havoc_ghosts(c):
        for g in GH:
            tagg = {"m_open": "bool", "wire": "bytes", "m_data": "bytes", "pong_acc": "bytes", "last_seq_ok": "bool"}.get(g, "int")
            c.ghost[g] = c.fresh(tagg, g)

    def havoc_objs(c, ws):
        fb, cf = c.getf(ws, "frame_buffer"), c.getf(ws, "cont_frame")
        sh = fb_shape(False)[2]
        c.setf(fb, "recv_buffer", c.fresh(("rope",), "recv_buffer"))
        for f in ("header", "length", "mask_value"):
            c.setf(fb, f, c.fresh(sh[f], f))
        c.setf(cf, "cont_data", c.fresh(("opt", ("list", ["int", "bytes"])), "cont_data"))
        c.setf(cf, "recving_frames", c.fresh(("opt", "int"), "recving_frames"))

    def rdf_loop_havoc(c, fr, entry):
        havoc_ghosts(c)
        havoc_objs(c, fr.locals["self"])
    e.loop("WebSocket.recv_data_frame", 0, inv=rdf_inv, havoc=rdf_loop_havoc,
           shapes={"frame": ("const", None)}, keep=("frame",),
           modifies=lambda c, fr: _rdf_mods(c, fr.locals["self"]))

    def _rdf_mods(c, ws):
        fb, cf = c.getf(ws, "frame_buffer"), c.getf(ws, "cont_frame")
        return [(fb, f) for f in ("recv_buffer", "header", "length", "mask_value")] + \
               [(cf, "cont_data"), (cf, "recving_frames"), (ws, "sock"), (ws, "connected")] + ["ghost:" + g for g in GH] + ["ghost:closed_handles"]

    def rdf_havoc(c, a, old, k):
        ws = a["self"]
        havoc_ghosts(c)
        havoc_objs(c, ws)
        c.ghost["closed_handles"] = c.fresh("int", "closed_handles")
        if k == 0:
            c.setf(ws, "connected", c.fresh("bool", "connected"))
        if k == 3:  # connection closed
            c.setf(ws, "sock", None)
            c.setf(ws, "connected", False)

    def rdf_result(c, a):
        return (c.fresh("int", "opcode"), c.fresh(abnf_shape("bytes", "keysource"), "rframe"))
    e.add(Contract(K + "WebSocket.recv_data_frame", cases=[("deliver-messages", rdf_case(False)), ("fire-cont-frame", rdf_case(True))],
                   requires=rdf_req, ensures=rdf_post, result=rdf_result,
                   raises=[(X.WebSocketProtocolException, None, rdf_proto), (X.WebSocketPayloadException, None, rdf_payload)] +
                          [(cls, None, rdf_fail) for cls in TRANSPORT_EXC] + [(ValueError, lambda c, old, a: z3.BoolVal(False), None)],
                   modifies=lambda c, a: _rdf_mods(c, a["self"]), havoc=rdf_havoc, props=("C02", "C03", "C04", "C05", "C06", "C07", "C08", "C17"),
                   doc="loop invariant over the frames consumed in this call: parser and reassembly state agree with the spec fold of the "
                       "accepted data frames; the wire has grown by exactly one pong (same payload, fresh key) per ping consumed, written "
                       "before the next read.  Returns the completed message (first fragment's opcode, in-order concatenation; valid UTF-8 for "
                       "text unless validation is off), or each data frame individually when fire_cont_frame is set, or the control frame; "
                       "a close frame is answered by exactly one close frame (1000) and clears `connected`"))


def install_recv(e):
    """WebSocket.recv (C02, C04, C06, C12, C17)."""
    from .core import mk_ws, lock_ok, TRANSPORT_EXC
    K = "websocket._core:"
    rdf = e.contracts[K + "WebSocket.recv_data_frame"]

    def recv_case(fire):
        def case(c):
            from .core import ghost_close
            ws = mk_ws(c, fire=fire, recv_state="any", dispatcher=None, keysrc="bytes")
            ghost_msg(c)
            ghost_close(c)
            c.ghost["pong_acc"] = SV("bytes", smt.empty)
            c.ghost["npings"] = 0
            return dict(self=ws)
        return case

    def recv_post(c, old, a, res):
        ws = a["self"]
        cf = c.getf(ws, "cont_frame")
        fire = c.getf(cf, "fire_cont_frame")
        d = spec.Dec(z(c.ghost["rx"]), z(c.ghost["lastf"]))
        mop, md = z(c.ghost["m_op"]), z(c.ghost["m_data"])
        op = d.opcode if fire is True else z3.If(z3.Or(d.opcode == 0, d.opcode == 1, d.opcode == 2), mop, d.opcode)
        data = d.payload if fire is True else z3.If(z3.Or(d.opcode == 0, d.opcode == 1, d.opcode == 2), md, d.payload)
        tg = tag_of(res)
        if tg == "str" and isinstance(res, SV):
            return z3.And(op == 1, z(res) == smt.utf8_dec(data), smt.wf_utf8(data))
        if tg == "bytes":
            return z3.And(op == 2, c.eq(z(res), data))
        if tg == "str":
            return z3.And(z3.BoolVal(res == ""), op != 1, op != 2)
        return z3.BoolVal(False)

    def recv_payload(c, old, a, exc):
        # a text message whose bytes are not well-formed UTF-8 (also with validation off / per-fragment delivery,
        # where the decode in recv() is the first check)
        ws = a["self"]
        cf = c.getf(ws, "cont_frame")
        fire = c.getf(cf, "fire_cont_frame")
        d = spec.Dec(z(c.ghost["rx"]), z(c.ghost["lastf"]))
        mop, md = z(c.ghost["m_op"]), z(c.ghost["m_data"])
        if fire is True:
            bad = z3.And(d.opcode == 1, z3.Not(smt.wf_utf8(d.payload)))
        else:
            bad = z3.And(mop == 1, z3.Not(smt.wf_utf8(md)))
        return z3.And(FB(c, c.getf(ws, "frame_buffer")), CF(c, cf), bad)

    def recv_req(c, a):
        from .core import WSI
        ws = a["self"]
        return z3.And(FB(c, c.getf(ws, "frame_buffer")), CF(c, c.getf(ws, "cont_frame")), WSI(c, ws))
    # the read lock must be held around the message-level read when entered through recv() (C12)
    base_req = rdf.requires

    def rdf_req_locked(c, a):
        r = base_req(c, a)
        if any(f.qual == "WebSocket.recv" for f in c.frames):
            return z3.And(r, z3.BoolVal(lock_ok(c, a["self"], "readlock")))
        return r
    rdf.requires = rdf_req_locked
    e.add(Contract(K + "WebSocket.recv", cases=[("deliver-messages", recv_case(False)), ("fire-cont-frame", recv_case(True))],
                   requires=recv_req, ensures=recv_post,
                   result=lambda c, a: c.fresh(("oneof", ["str", "bytes", ("const", "")]), "received"),
                   raises=[(cls, w, (recv_payload if cls is X.WebSocketPayloadException else p)) for (cls, w, p) in rdf.raises],
                   modifies=rdf.modifies, havoc=rdf.havoc, props=("C02", "C04", "C06", "C12", "C17"),
                   doc="under the read lock: text message -> its UTF-8 decoding (str), binary -> the bytes, anything else -> ''; "
                       "only the documented exception classes (no UnicodeDecodeError)"))
