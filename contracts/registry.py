"""Which functions, lemmas and bounded stand-ins decide which property (DESIGN.md sections 0 and 5)."""
from . import abnf, core, recv, app, url, http, net, extra, jar
from harness import appsim, native_c10, native_c11, native_c18, native_c19, native_c20

GLOBAL_TRUSTED = [
    "pyvc (AST -> verification conditions) and its encoding of Python semantics (DESIGN.md 2.2, 2.14)",
    "z3 5.1.0 (E-matching, MBQI off; ground-instantiation pass for counter-models)",
    "integers are mathematical (Python ints are unbounded): no machine-arithmetic approximation",
    "sequence axioms and library axioms A-CHR, A-PACK, A-INTXOR, A-ARRAY, A-UTF8 (DESIGN.md 2.3)",
]

LEMMAS = {}
# contract cases that legitimately have no normal exit (e.g. "no socket": always raises)
NEVER_RETURNS = {"websocket._socket:recv/none", "websocket._socket:send/bytes-none", "websocket._socket:send/str-none",
                 "websocket._dispatcher:DispatcherBase.send/none", "websocket._dispatcher:WrappedDispatcher.send/none",
                 "websocket._http:connect/proxy-socks,resolve"}
MODULES = [abnf, recv, core, url, app, http, net, extra, jar]
COST = {}


def install_all(e):
    for m in MODULES:
        m.install(e)
        LEMMAS.update(getattr(m, "LEMMAS", {}))


A = "websocket._abnf:"
U = "websocket._utils:"
K = "websocket._core:"
SK = "websocket._socket:"
HSK = "websocket._handshake:"
HK = "websocket._http:"
U_ = "websocket._url:"
PA = "websocket._app:"
D_ = "websocket._dispatcher:"
JK = "websocket._cookiejar:"
RFN = "WebSocketApp.run_forever.<locals>."
T_CB = "assumed contract of user callbacks: may raise any Exception subclass / KeyboardInterrupt / SystemExit and may call app.close()"
T_SEL = "assumed contract of selectors: select() returns a possibly empty ready list"
T_THREAD = "assumed contracts of threading.Event/Thread: the ping thread ends once its stop event is set (join within 3 s)"
BOUNDED_COMPOSITION = ("composition of the closures: the body of setSock and the whole of run_forever (reconnect loop, except / finally, return value) "
                       "are verified against the contracts of the closures; in the quick tier the most expensive parts (see functions_thorough in "
                       "contracts/registry.py: run_forever's case with the built-in reconnect loop beyond its entry state, and the setSock cases "
                       "not listed for this property) are left to the thorough tier, and a BOUNDED scenario harness (real WebSocketApp against a "
                       "scripted loopback server) runs in both tiers as a cross-check, never counted as proved")
SETSOCK = PA + RFN + "setSock"
COST.update({PA + RFN + "setSock": 100, PA + "WebSocketApp.run_forever": 100, PA + RFN + "read": 100, D_ + "Dispatcher.read": 80, D_ + "SSLDispatcher.read": 80,
             PA + RFN + "handleDisconnect": 60})
COST.update({K + "WebSocket.close": 100, K + "WebSocket.recv_data_frame": 100, K + "WebSocket.recv": 40, A + "frame_buffer.recv_frame": 10, A + "ABNF.format": 5})

T_TRANSPORT = "assumed contract of the transport (socket.recv / socket.send): which prefix is delivered/accepted and which error is raised are unconstrained (DESIGN.md section 3)"
T_KEYSRC = "assumed contract of the key source (os.urandom / user callable): returns 4 bytes or a 4-character ASCII str; randomness quality is not a contract"
T_REL = "assumed contract of an external (rel-like) dispatcher: buffwrite(sock, data, send, on_error) transmits all of data in order; read / timeout / signal register callbacks"
T_LOG = "logging calls are effect-free; isEnabledForTrace() is an unconstrained boolean (both values verified)"

SEND_FUNCS = [A + "_mask", A + "ABNF.mask", A + "ABNF._get_masked", A + "ABNF.format", A + "ABNF.create_frame",
              SK + "send", K + "WebSocket._send", K + "WebSocket.send_frame", K + "WebSocket.send", K + "WebSocket.ping",
              K + "WebSocket.pong", K + "WebSocket.send_close", K + "WebSocket.send_binary", K + "WebSocket.send_text",
              K + "WebSocket.send_bytes", K + "WebSocket.set_mask_key", K + "WebSocket.__init__"]
RECV_FUNCS = [A + "frame_buffer.recv_strict", A + "frame_buffer.recv_frame", A + "ABNF.validate", A + "ABNF.mask", A + "_mask",
              SK + "recv", K + "WebSocket._recv", K + "WebSocket.recv_data_frame", K + "WebSocket.recv",
              U + "validate_utf8", U + "_validate_utf8"]


def assumed_contracts_used(prop):
    return list(prop.get("assumed_contracts", []))


PROPS = {
    "C01": dict(
        functions=SEND_FUNCS, lemmas=["lemma:roundtrip"],
        trusted_base=[T_TRANSPORT, T_KEYSRC, T_LOG, "rfc_encode written from RFC 6455 5.2 (contracts/spec.py)"],
        assumptions=["A-INTXOR: xor of int.from_bytes values acts byte-wise (validated natively in the thorough tier)",
                     "text that str.encode('utf-8') rejects (lone surrogates) raises UnicodeEncodeError before anything is written"],
        not_decided=[]),
    "C02": dict(
        functions=RECV_FUNCS, lemmas=[],
        trusted_base=[T_TRANSPORT, "rfc_decode (spec.Dec) written from RFC 6455 5.2"],
        assumptions=["A-PACK (struct.unpack big-endian), A-INTXOR"], not_decided=[]),
    "C03": dict(
        functions=RECV_FUNCS + [SK + "recv_line", HK + "read_headers"], lemmas=[],
        trusted_base=[T_TRANSPORT],
        assumptions=["segmentation and timeout positions are the unconstrained choices of the assumed transport contract; every "
                     "post-condition is a function of (rx, fstart, object state) only"],
        not_decided=["the EAGAIN/select branch of _socket.recv returning None is reported as connection-closed (as written)"]),
    "C04": dict(
        functions=[K + "WebSocket.recv_data_frame", K + "WebSocket.recv", A + "frame_buffer.recv_frame", A + "ABNF.validate", K + "WebSocket.__init__"], lemmas=[],
        trusted_base=[T_TRANSPORT, "spec fold over accepted data frames (recv.fold_step)"],
        assumptions=["continuous_frame.validate/add/is_fire/extract are verified inlined into recv_data_frame (no separate contract)"],
        not_decided=[]),
    "C05": dict(
        functions=[A + "ABNF.validate", A + "frame_buffer.recv_frame", K + "WebSocket.recv_data_frame", U + "validate_utf8", U + "_validate_utf8"],
        lemmas=[],
        trusted_base=["close-code sets must_accept / must_reject as read from RFC 6455 7.4 (DESIGN.md section 3)"],
        assumptions=[], not_decided=[]),
    "C06": dict(
        functions=[U + "_validate_utf8", U + "validate_utf8", A + "ABNF.validate", K + "WebSocket.recv_data_frame", K + "WebSocket.recv",
                   A + "frame_buffer.recv_frame", K + "WebSocket.__init__"],
        lemmas=["lemma:utf8.trap_absorbing"],
        trusted_base=["spec automaton generated from Unicode 15 Table 3-7 (contracts/spec.py TABLE_3_7)",
                      "induction scheme behind the trap-absorption axiom (its step lemma L-TRAP is discharged)",
                      "A-UTF8: bytes.decode('utf-8') raises exactly when the input is not well-formed per Table 3-7"],
        assumptions=[], not_decided=[]),
    "C07": dict(
        functions=[K + "WebSocket.recv_data_frame", K + "WebSocket.pong", K + "WebSocket.send", K + "WebSocket.send_frame", A + "ABNF.format"],
        lemmas=[], trusted_base=[T_TRANSPORT, T_KEYSRC], assumptions=[], not_decided=[]),
    "C08": dict(
        functions=[K + "WebSocket.__init__", K + "WebSocket.close", K + "WebSocket.shutdown", K + "WebSocket.abort", K + "WebSocket.send_close",
                   K + "WebSocket.send", K + "WebSocket.send_frame", K + "WebSocket._send", K + "WebSocket._recv", SK + "send", SK + "recv",
                   K + "WebSocket.recv_data_frame", K + "WebSocket.recv", D_ + "DispatcherBase.send", D_ + "WrappedDispatcher.send",
                   A + "frame_buffer.recv_strict", K + "WebSocket.settimeout"],
        lemmas=[],
        trusted_base=[T_TRANSPORT, T_REL, "assumed contracts of sock.close()/shutdown()/settimeout()/gettimeout() and time.time() (non-decreasing clock)"],
        assumptions=["object invariant WSI (no transport => unconnected; auto_close_frames <= 1; auto_close_frames = 1 => unconnected) is "
                     "established by __init__ and preserved by every public method under contract, hence over all call/event histories",
                     "explicit user calls of send_close() are not counted as 'own initiative' (the statement's parenthesis names close() and the reply)"],
        not_decided=["close() returns within its timeout as a wall-clock bound: what is proved is its safety rendering - the socket timeout is set to the "
                     "caller's timeout before the wait loop, and no new wait for a frame is started once a clock reading of that iteration lies "
                     "past the deadline; that a blocked read really returns after the socket timeout is the transport's assumed behaviour"]),
    "C13": dict(
        functions=[PA + "WebSocketApp._callback", PA + RFN + "read", D_ + "Dispatcher.read", D_ + "SSLDispatcher.read", D_ + "SSLDispatcher.select",
                   PA + "WebSocketApp.send", PA + "WebSocketApp.send_text", PA + "WebSocketApp.send_bytes", K + "WebSocket._recv",
                   PA + "WebSocketApp.__init__", PA + "WebSocketApp.create_dispatcher",
                   A + "frame_buffer.recv_frame", A + "frame_buffer.recv_strict", K + "WebSocket.recv_data_frame", SETSOCK + "@@reconnect=on,external"],
        functions_thorough=[SETSOCK],
        lemmas=[], bounded=[appsim.bounded("C13")], trusted_base=[T_TRANSPORT, T_CB, T_SEL],
        assumptions=[BOUNDED_COMPOSITION + " (here: on_open / on_reconnect fire once per connection and before the dispatcher starts reading)"],
        not_decided=["the time at which a callback fires (only its mechanism, no over-read by the parser, is proved)"]),
    "C14": dict(
        functions=[PA + RFN + "teardown", PA + RFN + "read", PA + RFN + "handleDisconnect", PA + "WebSocketApp.run_forever",
                   PA + "WebSocketApp._get_close_args", PA + "WebSocketApp._stop_ping_thread", PA + "WebSocketApp._callback", K + "WebSocket.close", SETSOCK + "@@reconnect=off,external",
                   D_ + "Dispatcher.read", D_ + "SSLDispatcher.read", PA + "WebSocketApp.close", PA + "WebSocketApp.__init__"],
        functions_thorough=[SETSOCK, D_ + "DispatcherBase.reconnect"],
        lemmas=[], bounded=[appsim.bounded("C14")], trusted_base=[T_TRANSPORT, T_CB, T_SEL, T_THREAD],
        assumptions=[BOUNDED_COMPOSITION + " (here: the try/except/finally of run_forever reaches teardown on every exit path; the return value)"],
        not_decided=["that run_forever returns (termination depends on the peer / select)", "close() issued from another thread at every line",
                     "the ping thread is gone beyond 'stop event set and joined with its 3 s bound'"]),
    "C15": dict(
        functions=[PA + RFN + "handleDisconnect", D_ + "DispatcherBase.reconnect", PA + "WebSocketApp._start_ping_thread",
                   PA + "WebSocketApp._stop_ping_thread", K + "WebSocket.shutdown", PA + RFN + "read", PA + RFN + "teardown",
                   SETSOCK + "@@reconnect=on", PA + "WebSocketApp.close", K + "WebSocket.recv_data_frame"],
        functions_thorough=[SETSOCK, PA + "WebSocketApp.run_forever"],
        lemmas=[], bounded=[appsim.bounded("C15")],
        trusted_base=[T_TRANSPORT, T_CB, T_SEL, T_THREAD, "external dispatcher (rel) methods read/timeout/signal/abort are assumed contracts",
                      "contract of setSock (one attempt; previous socket shut down first) is used by DispatcherBase.reconnect as an assumed contract"],
        assumptions=[BOUNDED_COMPOSITION + " (here: the reconnect loop of run_forever and the body of setSock)"],
        not_decided=["that an attempt eventually succeeds; the real length of the pause (time.sleep is assumed to sleep)"]),
    "C16": dict(
        functions=[PA + "WebSocketApp.run_forever@@reconnect=off,external", PA + RFN + "check", PA + "WebSocketApp._send_ping", PA + "WebSocketApp._start_ping_thread",
                   PA + "WebSocketApp._stop_ping_thread", D_ + "Dispatcher.read", D_ + "SSLDispatcher.read", D_ + "SSLDispatcher.select", PA + RFN + "read", K + "WebSocket.ping",
                   PA + RFN + "handleDisconnect", PA + RFN + "teardown", PA + "WebSocketApp.create_dispatcher"],
        lemmas=["lemma:timing"], bounded=[appsim.bounded("C16")],
        trusted_base=[T_THREAD, T_SEL, "time.time() is a non-decreasing clock",
                      "scheduling assumptions of the timing lemmas: S1 select(T) returns within T, S2 processing a readable frame takes no time, "
                      "S3 a frame that started to arrive arrives completely"],
        assumptions=["timing lemmas are proved over the exact predicate of check() (its contract), not over thread interleavings"],
        not_decided=["interleavings of the ping thread with the reading loop; real scheduling latency"]),
    "C09": dict(
        functions=[HSK + "_validate", HSK + "_get_resp_headers", HSK + "handshake", HK + "read_headers", K + "WebSocket.connect", SK + "recv_line",
                   K + "create_connection"],
        lemmas=[], bounded=[],
        trusted_base=[T_TRANSPORT, "hashlib.sha1 / base64 / hmac.compare_digest are uninterpreted functions (compare_digest = equality)",
                      "token lists of Upgrade / Connection are abstracted by the predicate has_token (comma separated, trimmed, case-folded tokens)",
                      "contract of _http.connect (transport set-up) as verified under C18/C11/C19"],
        assumptions=["the request head is accepted by the transport in one write (it is far smaller than a socket buffer)",
                     "create_connection only constructs the object and calls connect(); it returns through connect()'s normal exit"],
        not_decided=[]),
    "C10": dict(
        functions=[HSK + "_get_handshake_headers", HSK + "_create_sec_websocket_key", HSK + "handshake", U_ + "parse_url"],
        lemmas=[], bounded=[native_c10.bounded],
        trusted_base=[T_KEYSRC, "z3 string theory for the request lines", "the process-wide cookie jar is abstracted by jar_cookie(host) (its contract: C20)"],
        assumptions=["option presence is symbolic for host / origin / suppress_origin / connection / cookie, subprotocols of length 0..2, header absent / list / "
                     "dict / dict with own key; caller strings contain no CR/LF (the syntax of each line is the caller's responsibility then)"],
        not_decided=["acceptance by an independent server: BOUNDED only (websockets 17 server protocol on a URL x option grid)"]),
    "C11": dict(
        functions=[HK + "_ssl_socket", HK + "connect", U_ + "parse_url"], lemmas=[], bounded=[native_c11.bounded],
        trusted_base=["assumed contract of ssl.SSLContext / OpenSSL: a context with verify_mode=CERT_REQUIRED and check_hostname=True rejects untrusted "
                      "chains and wrong names during wrap_socket, before any application byte", "os.environ / os.path.isfile / isdir are unconstrained"],
        assumptions=["option-combination coverage of _ssl_socket: all combinations of the verification keys (cert_reqs, check_hostname, ca_certs, "
                     "ca_cert_path, server_hostname) with the other keys absent; all combinations of the other keys with the verification keys absent; "
                     "all keys present; a caller-supplied context (the keys act in separate statements of the function)"],
        not_decided=["rejection of an untrusted or mismatching certificate by OpenSSL itself (assumed; only the configuration handed to it is proved)"]),
    "C17": dict(
        functions=[HK + "read_headers", SK + "recv_line", SK + "recv", HSK + "_get_resp_headers", HSK + "_validate", HSK + "handshake", K + "WebSocket.connect",
                   A + "frame_buffer.recv_strict", A + "frame_buffer.recv_frame", A + "ABNF.validate", K + "WebSocket.recv_data_frame", K + "WebSocket.recv",
                   PA + "WebSocketApp._get_close_args", PA + RFN + "read", K + "WebSocket.close", U + "validate_utf8", U + "_validate_utf8", K + "create_connection"],
        lemmas=[], bounded=[],
        trusted_base=[T_TRANSPORT, "A-UTF8 (bytes.decode raises exactly on ill-formed input), A-PACK (struct.unpack needs the exact length)"],
        assumptions=["every partial operation (index, key lookup, int(), decode, unpack, tuple unpacking, attribute of None) is a path fork: the failing side "
                     "must be unreachable or raise a class the contract allows; the allowed classes are the documented hierarchy plus the transport's own errors",
                     "every transport read requests at most 16384 bytes (precondition of the transport contract, checked at each call site)",
                     "progress: decreases clauses of recv_strict, recv_line, read_headers (each iteration consumes at least one byte or raises)"],
        not_decided=["behaviour under silence (blocking in the transport is the transport's behaviour)",
                     "termination of recv_data_frame / close()'s wait loop against an endless stream of control frames"]),
    "C18": dict(
        functions=[U_ + "parse_url", HK + "_open_socket", HK + "_get_addrinfo_list", HK + "connect"], lemmas=[], bounded=[native_c18.bounded],
        trusted_base=["assumed contract of urllib.parse.urlsplit / urlparse (hostname / port / path / query per RFC 3986; urlparse's .path lacks the ';parameters' "
                      "of the last segment, urlsplit's has them) - the grammar itself is only covered by the bounded URL grid", "assumed contracts of socket.socket / connect / setsockopt / settimeout / getaddrinfo"],
        assumptions=["'unreachable' is read as ENETUNREACH (the errno the mechanism names); EHOSTUNREACH counts as 'other error'"],
        not_decided=["behaviour of urlparse on the full URL grammar (bounded differential only)"]),
    "C19": dict(
        functions=[U_ + "_is_ip_address", U_ + "_is_subnet_address", U_ + "_is_address_in_network", U_ + "_is_no_proxy_host", U_ + "get_proxy_info",
                   HK + "_get_addrinfo_list", HK + "_tunnel", HK + "connect", HK + "read_headers", HK + "proxy_info.__init__"],
        lemmas=[], bounded=[native_c19.bounded],
        trusted_base=["assumed contract of socket.inet_aton (predicate inet_ok, value ipv4) and of urlparse / unquote / os.environ / base64",
                      "str.lstrip('.') and str.replace are uninterpreted with the facts stated in pyvc.engine"],
        assumptions=["non-canonical CIDR blocks (host bits set) are left unspecified", "the CONNECT request is accepted by the transport in one write"],
        not_decided=[]),
    "C20": dict(
        functions=[HSK + "_get_handshake_headers", HSK + "handshake", HK + "read_headers", JK + "SimpleCookieJar.add", JK + "SimpleCookieJar.get"],
        lemmas=[], bounded=[native_c20.bounded],
        explanation="Proved: add() keeps a response's cookies only when it names a Domain, under the key '.'+domain lower-cased (all of them, the new "
                    "value replacing a same-named older one, other entries untouched); get() selects exactly the stored domains that cover the "
                    "lower-cased host on a label boundary and renders their cookies name-sorted as 'name=value' joined by '; '; the Cookie line of the "
                    "request is the jar's answer followed by the caller's cookie; each response's Set-Cookie reaches the jar once. Domains, names, "
                    "values and hosts are arbitrary strings; the NUMBER of entries is fixed per contract case (a jar of 0-2 domains, responses of 1-2 "
                    "cookies) - every history is a sequence of such operations, and the representation invariant (keys dotted, lower-case, distinct) "
                    "that links them is part of the contracts. http.cookies.SimpleCookie is an assumed contract; the BOUNDED enumeration runs the "
                    "real SimpleCookie against a reference model as a cross-check of that assumption and is not counted as proved.",
        trusted_base=["assumed contract of http.cookies.SimpleCookie / Morsel (ordered map name -> morsel with value and Domain attribute; update() as dict.update)",
                      "A-LOWER: str.lower() is idempotent, keeps a leading '.' and creates none, maps only '' to '' (checked natively over all code points on every run of the bounded cross-check)",
                      "z3 string theory incl. its code-point order (Python compares str by code point)"],
        assumptions=["contract cases fix the number of entries: jar of 0-2 domains with 1-2 cookies each, responses of 1-2 cookies (one Domain per response, as "
                     "the property's quantifier says); cookie names are non-empty tokens without '=', ';' or space"],
        not_decided=["parsing of Set-Cookie text by http.cookies.SimpleCookie (assumed contract; bounded cross-check)",
                     "jars / responses with more entries than the contract cases (the per-entry logic is the same loop body; not proved by induction)"]),
    "C12": dict(
        functions=[K + "WebSocket.send_frame", K + "WebSocket._send", SK + "send", K + "WebSocket.recv", A + "frame_buffer.recv_frame",
                   K + "WebSocket.recv_data_frame", K + "WebSocket.__init__", D_ + "DispatcherBase.send", D_ + "WrappedDispatcher.send"],
        lemmas=[],
        trusted_base=[T_TRANSPORT, T_REL, "threading.Lock is a mutex with release/acquire ordering (assumed contract); all writers go through "
                                   "WebSocket._send, whose contract requires the send lock"],
        assumptions=["lock-invariant obligations instead of schedule exploration: on release of the send lock no partial frame is on the wire; "
                     "recv() calls the message-level read only under the read lock; recv_frame holds the frame lock for the whole frame"],
        not_decided=["exploration of thread interleavings; CPython memory model"]),
}
