"""Which functions, lemmas and bounded stand-ins decide which property (DESIGN.md sections 0 and 5)."""
from . import abnf, core, recv

GLOBAL_TRUSTED = [
    "pyvc (AST -> verification conditions) and its encoding of Python semantics (DESIGN.md 2.2, 2.14)",
    "z3 4.x/5.1.0 (E-matching, MBQI off; ground-instantiation pass for counter-models)",
    "integers are mathematical (Python ints are unbounded): no machine-arithmetic approximation",
    "sequence axioms and library axioms A-CHR, A-PACK, A-INTXOR, A-ARRAY, A-UTF8 (DESIGN.md 2.3)",
]

LEMMAS = {}
MODULES = [abnf, recv, core]


def install_all(e):
    for m in MODULES:
        m.install(e)
        LEMMAS.update(getattr(m, "LEMMAS", {}))


def assumed_contracts_used(prop):
    return list(prop.get("assumed_contracts", []))


A = "websocket._abnf:"
U = "websocket._utils:"

PROPS = {
    "C05": dict(
        functions=[A + "ABNF.validate", U + "validate_utf8", U + "_validate_utf8"],
        lemmas=[],
        bounded=[],
        trusted_base=["close-code sets must_accept / must_reject as read from RFC 6455 7.4 (DESIGN.md section 3)"],
        assumptions=[],
        not_decided=[],
    ),
    "C06": dict(
        functions=[U + "_validate_utf8", U + "validate_utf8"],
        lemmas=["lemma:utf8.trap_absorbing"],
        bounded=[],
        trusted_base=["spec automaton generated from Unicode 15 Table 3-7 (contracts/spec.py TABLE_3_7)",
                      "induction scheme behind the trap-absorption axiom (its step lemma L-TRAP is discharged)"],
        assumptions=[],
        not_decided=[],
    ),
}
