"""Which functions, lemmas and bounded stand-ins decide which property (DESIGN.md sections 0 and 5)."""
from . import abnf, core, recv, app, url, http, net
from harness import appsim

GLOBAL_TRUSTED = [
    "pyvc (AST -> verification conditions) and its encoding of Python semantics (DESIGN.md 2.2, 2.14)",
    "z3 5.1.0 (E-matching, MBQI off; ground-instantiation pass for counter-models)",
    "integers are mathematical (Python ints are unbounded): no machine-arithmetic approximation",
    "sequence axioms and library axioms A-CHR, A-PACK, A-INTXOR, A-ARRAY, A-UTF8 (DESIGN.md 2.3)",
]

LEMMAS = {}
NEVER_RETURNS = set()  # functions whose contract cases legitimately have no normal exit
MODULES = [abnf, recv, core, url, app, http, net]
COST = {}


def install_all(e):
    for m in MODULES:
        m.install(e)
        LEMMAS.update(getattr(m, "LEMMAS", {}))


A = "websocket._abnf:"
U = "websocket._utils:"
K = "websocket._core:"
SK = "websocket._socket:"
PA = "websocket._app:"
D_ = "websocket._dispatcher:"
RFN = "WebSocketApp.run_forever.<locals>."
T_CB = "assumed contract of user callbacks: may raise any Exception subclass / KeyboardInterrupt / SystemExit and may call app.close()"
T_SEL = "assumed contract of selectors: select() returns a possibly empty ready list"
T_THREAD = "assumed contracts of threading.Event/Thread: the ping thread ends once its stop event is set (join within 3 s)"
BOUNDED_COMPOSITION = ("the bodies of run_forever (after its validation prefix) and of the closure setSock compose the closures proved here; "
                       "that composition is covered only by a BOUNDED scenario harness (real WebSocketApp against a scripted loopback server), never counted as proved")
COST.update({PA + RFN + "setSock": 100, PA + "WebSocketApp.run_forever": 100, PA + RFN + "read": 100, D_ + "Dispatcher.read": 80, D_ + "SSLDispatcher.read": 80,
             PA + RFN + "handleDisconnect": 60})
COST.update({K + "WebSocket.close": 100, K + "WebSocket.recv_data_frame": 100, K + "WebSocket.recv": 40, A + "frame_buffer.recv_frame": 10, A + "ABNF.format": 5})

T_TRANSPORT = "assumed contract of the transport (socket.recv / socket.send): which prefix is delivered/accepted and which error is raised are unconstrained (DESIGN.md section 3)"
T_KEYSRC = "assumed contract of the key source (os.urandom / user callable): returns 4 bytes or a 4-character ASCII str; randomness quality is not a contract"
T_LOG = "logging calls are effect-free; isEnabledForTrace() is an unconstrained boolean (both values verified)"

SEND_FUNCS = [A + "_mask", A + "ABNF.mask", A + "ABNF._get_masked", A + "ABNF.format", A + "ABNF.create_frame",
              SK + "send", K + "WebSocket._send", K + "WebSocket.send_frame", K + "WebSocket.send", K + "WebSocket.ping",
              K + "WebSocket.pong", K + "WebSocket.send_close"]
RECV_FUNCS = [A + "frame_buffer.recv_strict", A + "frame_buffer.recv_frame", A + "ABNF.validate", A + "ABNF.mask", A + "_mask",
              SK + "recv", K + "WebSocket._recv", K + "WebSocket.recv_data_frame", K + "WebSocket.recv",
              U + "validate_utf8", U + "_validate_utf8"]


def assumed_contracts_used(prop):
    return list(prop.get("assumed_contracts", []))


PROPS = {
    "C01": dict(
        functions=SEND_FUNCS, lemmas=["lemma:roundtrip"],
        trusted_base=[T_TRANSPORT, T_KEYSRC, T_LOG, "rfc_encode written from RFC 6455 5.2 (contracts/spec.py)"],
        assumptions=["A-INTXOR: xor of int.from_bytes values acts byte-wise (validated natively in the thorough tier)",
                     "text that str.encode('utf-8') rejects (lone surrogates) raises UnicodeEncodeError before anything is written"],
        not_decided=[]),
    "C02": dict(
        functions=RECV_FUNCS, lemmas=[],
        trusted_base=[T_TRANSPORT, "rfc_decode (spec.Dec) written from RFC 6455 5.2"],
        assumptions=["A-PACK (struct.unpack big-endian), A-INTXOR"], not_decided=[]),
    "C03": dict(
        functions=RECV_FUNCS + [SK + "recv_line"], lemmas=[],
        trusted_base=[T_TRANSPORT],
        assumptions=["segmentation and timeout positions are the unconstrained choices of the assumed transport contract; every "
                     "post-condition is a function of (rx, fstart, object state) only"],
        not_decided=["the EAGAIN/select branch of _socket.recv returning None is reported as connection-closed (as written)"]),
    "C04": dict(
        functions=[K + "WebSocket.recv_data_frame", K + "WebSocket.recv", A + "frame_buffer.recv_frame"], lemmas=[],
        trusted_base=[T_TRANSPORT, "spec fold over accepted data frames (recv.fold_step)"],
        assumptions=["continuous_frame.validate/add/is_fire/extract are verified inlined into recv_data_frame (no separate contract)"],
        not_decided=[]),
    "C05": dict(
        functions=[A + "ABNF.validate", A + "frame_buffer.recv_frame", K + "WebSocket.recv_data_frame", U + "validate_utf8", U + "_validate_utf8"],
        lemmas=[],
        trusted_base=["close-code sets must_accept / must_reject as read from RFC 6455 7.4 (DESIGN.md section 3)"],
        assumptions=[], not_decided=[]),
    "C06": dict(
        functions=[U + "_validate_utf8", U + "validate_utf8", A + "ABNF.validate", K + "WebSocket.recv_data_frame", K + "WebSocket.recv"],
        lemmas=["lemma:utf8.trap_absorbing"],
        trusted_base=["spec automaton generated from Unicode 15 Table 3-7 (contracts/spec.py TABLE_3_7)",
                      "induction scheme behind the trap-absorption axiom (its step lemma L-TRAP is discharged)",
                      "A-UTF8: bytes.decode('utf-8') raises exactly when the input is not well-formed per Table 3-7"],
        assumptions=[], not_decided=[]),
    "C07": dict(
        functions=[K + "WebSocket.recv_data_frame", K + "WebSocket.pong", K + "WebSocket.send", K + "WebSocket.send_frame", A + "ABNF.format"],
        lemmas=[], trusted_base=[T_TRANSPORT, T_KEYSRC], assumptions=[], not_decided=[]),
    "C08": dict(
        functions=[K + "WebSocket.__init__", K + "WebSocket.close", K + "WebSocket.shutdown", K + "WebSocket.abort", K + "WebSocket.send_close",
                   K + "WebSocket.send", K + "WebSocket.send_frame", K + "WebSocket._send", K + "WebSocket._recv", SK + "send", SK + "recv",
                   K + "WebSocket.recv_data_frame", K + "WebSocket.recv"],
        lemmas=[],
        trusted_base=[T_TRANSPORT, "assumed contracts of sock.close()/shutdown()/settimeout()/gettimeout() and time.time() (non-decreasing clock)"],
        assumptions=["object invariant WSI (no transport => unconnected; auto_close_frames <= 1; auto_close_frames = 1 => unconnected) is "
                     "established by __init__ and preserved by every public method under contract, hence over all call/event histories",
                     "explicit user calls of send_close() are not counted as 'own initiative' (the statement's parenthesis names close() and the reply)"],
        not_decided=["close() returns within its timeout (a wall-clock bound on a loop whose progress depends on the peer)"]),
    "C13": dict(
        functions=[PA + "WebSocketApp._callback", PA + RFN + "read", D_ + "Dispatcher.read", D_ + "SSLDispatcher.read",
                   A + "frame_buffer.recv_frame", K + "WebSocket.recv_data_frame"],
        lemmas=[], bounded=[appsim.bounded("C13")], trusted_base=[T_TRANSPORT, T_CB, T_SEL],
        assumptions=[BOUNDED_COMPOSITION + " (here: on_open / on_reconnect fire once per connection and before the dispatcher starts reading)"],
        not_decided=["the time at which a callback fires (only its mechanism, no over-read by the parser, is proved)"]),
    "C14": dict(
        functions=[PA + RFN + "teardown", PA + RFN + "read", PA + RFN + "handleDisconnect", PA + "WebSocketApp.run_forever",
                   PA + "WebSocketApp._get_close_args", PA + "WebSocketApp._stop_ping_thread", PA + "WebSocketApp._callback", K + "WebSocket.close"],
        lemmas=[], bounded=[appsim.bounded("C14")], trusted_base=[T_TRANSPORT, T_CB, T_SEL, T_THREAD],
        assumptions=[BOUNDED_COMPOSITION + " (here: the try/except/finally of run_forever reaches teardown on every exit path; the return value)"],
        not_decided=["that run_forever returns (termination depends on the peer / select)", "close() issued from another thread at every line",
                     "the ping thread is gone beyond 'stop event set and joined with its 3 s bound'"]),
    "C15": dict(
        functions=[PA + RFN + "handleDisconnect", D_ + "DispatcherBase.reconnect", PA + "WebSocketApp._start_ping_thread",
                   PA + "WebSocketApp._stop_ping_thread", K + "WebSocket.shutdown", PA + RFN + "read", PA + RFN + "teardown"],
        lemmas=[], bounded=[appsim.bounded("C15")],
        trusted_base=[T_TRANSPORT, T_CB, T_SEL, T_THREAD, "external dispatcher (rel) methods read/timeout/signal/abort are assumed contracts",
                      "contract of setSock (one attempt; previous socket shut down first) is used by DispatcherBase.reconnect as an assumed contract"],
        assumptions=[BOUNDED_COMPOSITION + " (here: the reconnect loop of run_forever and the body of setSock)"],
        not_decided=["that an attempt eventually succeeds; the real length of the pause (time.sleep is assumed to sleep)"]),
    "C16": dict(
        functions=[PA + "WebSocketApp.run_forever", PA + RFN + "check", PA + "WebSocketApp._send_ping", PA + "WebSocketApp._start_ping_thread",
                   PA + "WebSocketApp._stop_ping_thread", D_ + "Dispatcher.read", D_ + "SSLDispatcher.read", PA + RFN + "read", K + "WebSocket.ping"],
        lemmas=["lemma:timing"], bounded=[appsim.bounded("C16")],
        trusted_base=[T_THREAD, T_SEL, "time.time() is a non-decreasing clock",
                      "scheduling assumptions of the timing lemmas: S1 select(T) returns within T, S2 processing a readable frame takes no time, "
                      "S3 a frame that started to arrive arrives completely"],
        assumptions=["timing lemmas are proved over the exact predicate of check() (its contract), not over thread interleavings"],
        not_decided=["interleavings of the ping thread with the reading loop; real scheduling latency"]),
    "C12": dict(
        functions=[K + "WebSocket.send_frame", K + "WebSocket._send", SK + "send", K + "WebSocket.recv", A + "frame_buffer.recv_frame",
                   K + "WebSocket.recv_data_frame"],
        lemmas=[],
        trusted_base=[T_TRANSPORT, "threading.Lock is a mutex with release/acquire ordering (assumed contract); all writers go through "
                                   "WebSocket._send, whose contract requires the send lock"],
        assumptions=["lock-invariant obligations instead of schedule exploration: on release of the send lock no partial frame is on the wire; "
                     "recv() calls the message-level read only under the read lock; recv_frame holds the frame lock for the whole frame"],
        not_decided=["exploration of thread interleavings; CPython memory model"]),
}
