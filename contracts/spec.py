"""Spec functions written from RFC 6455 / Unicode Table 3-7 (z3 side).  Executable twins: harness/specexec.py."""
import z3
from pyvc import smt
from pyvc.smt import Sq, Int, slen, at, slc, cat, unit

# ---------------------------------------------------------------- close codes (DESIGN section 3)
def must_accept(code):
    return z3.Or(z3.And(code >= 1000, code <= 1003), z3.And(code >= 1007, code <= 1011),
                 z3.And(code >= 3000, code <= 4999))


def must_reject(code):
    return z3.Or(code <= 999, code == 1004, code == 1005, code == 1006, code == 1015,
                 z3.And(code >= 1016, code <= 2999), code >= 5000)


def is_control(op):
    return z3.Or(op == 8, op == 9, op == 10)


def known_opcode(op):
    return z3.Or(op == 0, op == 1, op == 2, op == 8, op == 9, op == 10)


def rfc_ok(fin, r1, r2, r3, op, data, skip, mode):
    """RFC 6455 5.2/5.5/7.4 admissibility of one received frame.  mode: 'not_must_reject' | 'must_accept'."""
    n = slen(data)
    code = at(data, 0) * 256 + at(data, 1)
    code_ok = z3.Not(must_reject(code)) if mode == "not_must_reject" else must_accept(code)
    reason_ok = z3.Or(n == 2, skip, smt.wf_utf8(slc(data, 2, n)))
    return z3.And(r1 == 0, r2 == 0, r3 == 0, known_opcode(op),
                  z3.Implies(is_control(op), z3.And(fin != 0, n <= 125)),
                  z3.Implies(z3.And(op == 8, n > 0), z3.And(n != 1, code_ok, reason_ok)))


# ---------------------------------------------------------------- UTF-8 (Unicode 15 Table 3-7)
# rows: (first byte lo, hi, second byte lo, hi, number of trailing bytes after the first)
TABLE_3_7 = [
    (0x00, 0x7F, None, None, 0),
    (0xC2, 0xDF, 0x80, 0xBF, 1),
    (0xE0, 0xE0, 0xA0, 0xBF, 2),
    (0xE1, 0xEC, 0x80, 0xBF, 2),
    (0xED, 0xED, 0x80, 0x9F, 2),
    (0xEE, 0xEF, 0x80, 0xBF, 2),
    (0xF0, 0xF0, 0x90, 0xBF, 3),
    (0xF1, 0xF3, 0x80, 0xBF, 3),
    (0xF4, 0xF4, 0x80, 0x8F, 3),
]
U_START, U_TRAP = 0, 8


def _build_automaton():
    """States: 0 start; 1 = one plain continuation byte left; 2 = two plain left;
    k>=3: waiting for a constrained second byte (lo,hi) then `rest` plain ones.  8 = trap."""
    states = {("start",): 0, ("plain", 1): 1, ("plain", 2): 2}
    second = {}
    nxt = 3
    for (flo, fhi, slo, shi, trail) in TABLE_3_7:
        if trail >= 2 and (slo, shi) != (0x80, 0xBF) or trail == 3:
            key = ("second", slo, shi, trail - 1)
            if key not in states:
                states[key] = nxt
                nxt += 1
    assert nxt == U_TRAP, nxt
    return states


U_STATES = _build_automaton()


def step_u_py(s, x):
    """Executable transition function of the spec automaton."""
    inv = {v: k for k, v in U_STATES.items()}
    if s == U_TRAP:
        return U_TRAP
    k = inv[s]
    if k[0] == "start":
        for (flo, fhi, slo, shi, trail) in TABLE_3_7:
            if flo <= x <= fhi:
                if trail == 0:
                    return 0
                if trail == 1:
                    return 1
                key = ("second", slo, shi, trail - 1)
                return U_STATES.get(key, 2 if trail == 2 else None)
        return U_TRAP
    if k[0] == "plain":
        if 0x80 <= x <= 0xBF:
            return 0 if k[1] == 1 else U_STATES[("plain", k[1] - 1)]
        return U_TRAP
    _, lo, hi, rest = k
    if lo <= x <= hi:
        return U_STATES[("plain", rest)]
    return U_TRAP


def step_u(s, x):
    """z3 term for step_u_py, generated from the executable function (range-compressed per state)."""
    def per_state(st):
        runs = []
        for b in range(256):
            v = step_u_py(st, b)
            if runs and runs[-1][1] == v:
                continue
            runs.append((b, v))
        t = z3.IntVal(runs[-1][1])
        for i in range(len(runs) - 2, -1, -1):
            t = z3.If(x < runs[i + 1][0], runs[i][1], t)
        return t
    t = z3.IntVal(U_TRAP)
    for st in range(U_TRAP - 1, -1, -1):
        t = z3.If(s == st, per_state(st), t)
    return t


ustate = z3.Function("ustate", Sq, Int, Int)  # state of the spec automaton after i bytes of b
umark = z3.Function("umark", Sq, Int, z3.BoolSort())


def utf8_axioms():
    b = z3.Const("b", Sq)
    i = z3.Int("i")
    return [
        z3.ForAll([b], ustate(b, 0) == U_START, patterns=[ustate(b, 0)]),
        z3.ForAll([b, i], z3.Implies(z3.And(0 <= i, i < slen(b)), ustate(b, i + 1) == step_u(ustate(b, i), at(b, i))),
                  patterns=[umark(b, i)]),
        z3.ForAll([b], smt.wf_utf8(b) == (ustate(b, slen(b)) == U_START), patterns=[smt.wf_utf8(b)]),
        # derived by induction on j from the lemma L-TRAP (step_u(TRAP, x) = TRAP, discharged in C06's run)
        z3.ForAll([b, i], z3.Implies(z3.And(0 <= i, i <= slen(b), ustate(b, i) == U_TRAP), ustate(b, slen(b)) == U_TRAP),
                  patterns=[ustate(b, i)]),
        z3.ForAll([b, i], z3.And(0 <= ustate(b, i), ustate(b, i) <= U_TRAP), patterns=[ustate(b, i)]),
    ]


# ---------------------------------------------------------------- RFC 6455 5.2 encoder spec
keyfn = z3.Function("key", Int, Sq)  # ghost: wire bytes of the value returned by the i-th draw from a key source
srcfn = z3.Function("keysrc", Int, Int)  # ghost: identity of the key source used for the i-th draw


def forall_i(n, body, pats=None, name="i"):
    i = z3.Int(name + "!q")
    b = body(i)
    return z3.ForAll([i], z3.Implies(z3.And(0 <= i, i < n), b), patterns=pats(i) if pats else None)


def forall_range(lo, hi, body, pats=None, name="k"):
    k = z3.Int(name + "!q")
    return z3.ForAll([k], z3.Implies(z3.And(lo <= k, k < hi), body(k)), patterns=pats(k) if pats else None)


def be_bytes(n, k):
    """k-byte big-endian representation of n (0 <= n < 256^k)."""
    qs = [n]
    for _ in range(k - 1):
        qs.append(qs[-1] / 256)  # nested division by 256: keeps every obligation linear for the solver
    return smt.cat_all([unit(qs[k - 1 - j] % 256) for j in range(k)])


def header_len(n):
    return z3.If(n <= 125, 2, z3.If(n <= 65535, 4, 10))


def rfc_header(fin, r1, r2, r3, op, maskbit, n):
    b0 = fin * 128 + r1 * 64 + r2 * 32 + r3 * 16 + op
    c7 = z3.If(n <= 125, n, z3.If(n <= 65535, 126, 127))
    ext = z3.If(n <= 125, smt.empty, z3.If(n <= 65535, be_bytes(n, 2), be_bytes(n, 8)))
    return cat(cat(unit(b0), unit(maskbit * 128 + c7)), ext)


def rfc_encode(fin, r1, r2, r3, op, maskbit, key, payload):
    """RFC 6455 5.2 encoding, shortest length form (7-bit <= 125, 16-bit <= 65535, 64-bit beyond); written from
    the RFC.  Masked frames: header, 4 key bytes, payload xor key cyclically."""
    hdr = rfc_header(fin, r1, r2, r3, op, maskbit, slen(payload))
    return z3.If(maskbit == 1, cat(hdr, cat(key, smt.xormask(payload, key))), cat(hdr, payload))


# ---------------------------------------------------------------- RFC 6455 5.2 decoder spec (over the stream rx at offset f)
_dec_cache = {}


def Dec(rx, f):
    """Fields of the frame that starts at offset f of the byte stream rx (memoised: z3 terms are hash-consed)."""
    if not z3.is_expr(f):
        f = z3.IntVal(f)
    k = (rx.get_id(), f.get_id())
    hit = _dec_cache.get(k)
    if hit is not None and hit[0].eq(rx) and hit[1].eq(f):
        return hit[2]
    d = _Dec(rx, f)
    if len(_dec_cache) > 20000:
        _dec_cache.clear()
    _dec_cache[k] = (rx, f, d)
    return d


class _Dec:
    """Fields of the frame that starts at offset f of the byte stream rx, as RFC 6455 5.2 defines them."""

    def __init__(self, rx, f):
        b0, b1 = at(rx, f), at(rx, f + 1)
        self.fin = b0 / 128
        self.rsv1 = (b0 / 64) % 2
        self.rsv2 = (b0 / 32) % 2
        self.rsv3 = (b0 / 16) % 2
        self.opcode = b0 % 16
        self.masked = b1 / 128
        self.l7 = b1 % 128
        self.ext = z3.If(self.l7 == 126, 2, z3.If(self.l7 == 127, 8, 0))
        self.length = z3.If(self.l7 == 126, at(rx, f + 2) * 256 + at(rx, f + 3),
                            z3.If(self.l7 == 127, z3.Sum([at(rx, f + 2 + j) * (256 ** (7 - j)) for j in range(8)]), self.l7))
        self.keypos = f + 2 + self.ext
        self.paypos = self.keypos + 4 * self.masked
        self.next = self.paypos + self.length
        self.key = slc(rx, self.keypos, self.keypos + 4)
        raw = slc(rx, self.paypos, self.next)
        self.payload = z3.If(self.masked == 1, smt.xormask(raw, self.key), raw)
        self.header = (self.fin, self.rsv1, self.rsv2, self.rsv3, self.opcode, self.masked, self.l7)
