"""MANIFEST texts per claimed property (level_claimed.text, level_note, technique)."""
TECH = "contract-based deductive verification: sidecar contracts on the real functions, VCs generated from their AST on every run, discharged by z3 (E-matching over an axiomatised byte-sequence theory)"
TRUST = "Trusted: pyvc's encoding of Python semantics (DESIGN.md 2.2/2.14), z3, the sequence/library axioms of DESIGN.md 2.3; "
TEXTS = {
    "C01": dict(
        level_text="Proof that ABNF.format / _get_masked / mask / _mask / create_frame and WebSocket.send_frame / send / ping / pong / send_close return and write exactly rfc_encode(frame) - the RFC 6455 5.2 encoding with the shortest length form, MASK set, one key drawn from the configured source - for payloads of every length and content, all opcodes/FIN values the API accepts, bytes / bytearray / text, custom bytes and ASCII-str key sources, trace on and off, and every short-write pattern (loop invariant); lemma L-RT: an independent decoder recovers the fields and payload.",
        level_note=TRUST + "assumed contracts of the transport's send() and of the key source (os.urandom / user callable returns 4 bytes or 4 ASCII chars); A-INTXOR (xor of int.from_bytes values is byte-wise). close() is covered by C08.",
        technique=TECH, design_ref="DESIGN.md 5 C01"),
    "C02": dict(
        level_text="Proof, over a ghost byte stream rx with ghost frame start fstart, that frame_buffer.recv_strict / recv_frame (with recv_header, recv_length, recv_mask inlined) return exactly rfc_decode(rx, fstart) - FIN, RSV, opcode, mask flag, unmasked payload, all three length forms - and consume exactly the frame's bytes (fstart' = next frame, nothing buffered beyond it), for all streams; WebSocket.recv_data_frame / recv hand out those frames / messages in order (loop invariant).",
        level_note=TRUST + "assumed transport contract (any non-empty prefix of what remains, or an error, per read); rfc_decode as written from RFC 6455 5.2; A-PACK for struct.unpack.",
        technique=TECH, design_ref="DESIGN.md 5 C02"),
    "C03": dict(
        level_text="Proof that every post-condition of the receive path is a function of (rx, fstart, object state) only while the chunk returned by each transport read is unconstrained (so it holds for every segmentation down to single bytes), that recv_line consumes exactly up to the first LF (handshake boundary), and that every exceptional exit (timeout at any read) preserves the parser and reassembly invariants with fstart unchanged, so a retry resumes without loss, duplication or reordering.",
        level_note=TRUST + "assumed transport contract; timeouts are those raised by the transport (socket.timeout / SSL 'timed out') and mapped by _socket.recv; the select-returns-nothing branch of _socket.recv is verified as written (it reports connection-closed).",
        technique=TECH, design_ref="DESIGN.md 5 C03"),
    "C04": dict(
        level_text="Proof by loop invariant over the frames consumed in one call of recv_data_frame: the reassembly object agrees with a spec fold over the accepted data frames (first fragment's opcode, in-order concatenation), control frames in between change nothing but the wire, and the value returned is the completed message (or, with fire_cont_frame, each fragment with its own payload and FIN); by induction over calls, consecutive messages come out in order.",
        level_note=TRUST + "continuous_frame.validate/add/is_fire/extract are verified inlined into recv_data_frame against its contract rather than under contracts of their own.",
        technique=TECH, design_ref="DESIGN.md 5 C04"),
    "C05": dict(
        level_text="Proof, for all frames (symbolic opcode, flags, payload of any length, all 65536 close codes), that ABNF.validate returns normally only on frames RFC 6455 admits and raises WebSocketProtocolException only on frames it need not accept; recv_frame / recv_data_frame deliver only admissible frames in a legal data/continuation sequence; every other exception class is proved impossible.",
        level_note=TRUST + "the reading of RFC 6455 7.4 (must_accept / must_reject code sets; 1012-1014 left open), wf_utf8 defined by the Table 3-7 automaton (C06). The converse direction (every legal sequence is accepted) is proved for single frames in ABNF.validate and recv_frame; for sequences it follows from the fold guard and is additionally exercised by the native differential used for replays.",
        technique=TECH, design_ref="DESIGN.md 5 C05"),
    "C06": dict(
        level_text="Proof by loop invariant (simulation between the code's table-driven DFA, read from the live module, and an automaton generated from Unicode Table 3-7) that validate_utf8(b) is True exactly for well-formed UTF-8, for byte strings of every length; recv_data_frame validates the reassembled message (so a code point split across fragments is accepted), recv() never lets a decode error escape, and with validation off bytes pass through.",
        level_note=TRUST + "the transcription of Unicode Table 3-7, the induction scheme behind the trap-absorption axiom (its step lemma is discharged), A-UTF8 (CPython's strict decoder agrees with Table 3-7).",
        technique=TECH, design_ref="DESIGN.md 5 C06"),
    "C07": dict(
        level_text="Proof by the loop invariant of recv_data_frame that at every loop head (i.e. before the next transport read) the wire has grown by exactly one pong - rfc_encode(FIN, PONG, fresh key, same payload) - per ping consumed so far, in arrival order, and by nothing else; a close frame adds exactly one close reply; for every ping payload 0..125 bytes, any number and position of pings, with and without control-frame reporting.",
        level_note=TRUST + "assumed transport and key-source contracts; the pong path uses the contracts of WebSocket.pong/send/send_frame/ABNF.format proved under C01.",
        technique=TECH, design_ref="DESIGN.md 5 C07"),
    "C08": dict(
        level_text="Proof that an object invariant (no transport => unconnected; at most one close frame written on the client's own initiative, after which the object is unconnected) is established by __init__ and preserved by close, shutdown, send_close, send, ping, pong, send_frame, recv, recv_data_frame, _recv on every path including every transport failure - hence over all call/event histories of any length; close()/send_close() refuse out-of-range statuses before writing anything; close() writes at most the one RFC-encoded close frame, its wait loop writes nothing, and on every path it ends with the transport released; with no transport, send and receive raise the connection-closed exception with no transport call.",
        level_note=TRUST + "assumed transport / clock contracts. NOT decided: 'close() returns within its timeout' (wall-clock liveness); only the structure (socket timeout set, clock re-read each iteration, any exception leaves the loop) is verified.",
        technique=TECH + "; object invariant inductive over all public methods", design_ref="DESIGN.md 5 C08"),
    "C12": dict(
        level_text="Sequential part, proof: for every pattern of short writes the bytes accepted during one send_frame call are exactly one rfc_encode(frame) (loop invariant); _socket.send makes one accepted transport write per call. Concurrent part: lock-invariant obligations - the send lock is released only when no partial frame is on the wire, WebSocket._send requires the send lock, recv() performs the message read only under the read lock, recv_frame holds the frame lock until the stage flags are cleared; default construction uses real locks.",
        level_note=TRUST + "threading.Lock is a mutex (assumed); thread interleavings are NOT explored - the claim is lock discipline plus sequential correctness, as DESIGN.md 5 C12 states.",
        technique=TECH + "; lock-invariant obligations for the concurrent clauses", design_ref="DESIGN.md 5 C12"),
}
NOT_APPLICABLE = {}
