"""MANIFEST texts per claimed property (level_claimed.text, level_note, technique)."""
TECH = "contract-based deductive verification: sidecar contracts on the real functions, VCs generated from their AST on every run, discharged by z3"
TEXTS = {
    "C05": dict(
        level_text="Proof, for all frames (symbolic opcode, flags, payload of any length, all 65536 close codes), that ABNF.validate returns normally only on frames RFC 6455 admits and raises WebSocketProtocolException only on frames it need not accept; every other exception class is proved impossible.",
        level_note="Trusted: pyvc's encoding of Python semantics, z3, the reading of RFC 6455 7.4 (must_accept / must_reject code sets; 1012-1014 left open), wf_utf8 defined by the Table 3-7 automaton (C06).",
        technique=TECH, design_ref="DESIGN.md 5 C05"),
    "C06": dict(
        level_text="Proof by loop invariant (simulation between the code's table-driven DFA, read from the live module, and an automaton generated from Unicode Table 3-7) that validate_utf8(b) is True exactly for well-formed UTF-8, for byte strings of every length.",
        level_note="Trusted: pyvc, z3, the transcription of Unicode Table 3-7, the induction scheme behind the trap-absorption axiom (its step lemma is discharged).",
        technique=TECH, design_ref="DESIGN.md 5 C06"),
}
NOT_APPLICABLE = {}
