"""Contracts for websocket/_url.py (C18 parse_url; C19 proxy selection and no_proxy exemption)."""
import socket as _socket
import z3
from pyvc import smt
from pyvc import models as _M
from pyvc import engine as _E
from pyvc.engine import Contract
from pyvc.values import SV, Ref, Ext, ExcVal, OptV, SymSeq, z, zn, unopt, tag_of
from pyvc.smt import S, Int, Sq, slen, at
import websocket._exceptions as X
import websocket._url as url_mod

U = "websocket._url:"
inet_ok = z3.Function("inet_ok", S, smt.Bool)   # socket.inet_aton(s) succeeds (s is an IPv4 address in a form inet_aton accepts)
ipv4 = z3.Function("ipv4", S, Int)              # its 32-bit value
int_ok, int_val = _E.M_int_ok, _E.M_int_val


def axioms():
    s = z3.Const("s", S)
    return [z3.ForAll([s], z3.Implies(inet_ok(s), z3.And(ipv4(s) >= 0, ipv4(s) < 2 ** 32)), patterns=[ipv4(s)])]


def split_once(s, sep="/"):
    """(has exactly one sep, part before, part after) of a z3 string."""
    sv = z3.StringVal(sep)
    i = z3.IndexOf(s, sv, 0)
    before = z3.SubString(s, 0, i)
    after = z3.SubString(s, i + len(sep), z3.Length(s) - i - len(sep))
    return z3.And(z3.Contains(s, sv), z3.Not(z3.Contains(after, sv))), before, after


def is_cidr(s):
    """`a/n` with a an IPv4 address and n an integer in 0..32 (every IPv4 prefix length)."""
    one, a, n = split_once(s)
    return z3.And(one, inet_ok(a), int_ok(n), int_val(n) >= 0, int_val(n) <= 32)


def in_block(ip, net):
    """ip lies in the CIDR block net = a/n (the first n bits agree)."""
    one, a, n = split_once(net)
    k = int_val(n)
    cases = [z3.And(k == j, ipv4(ip) / (2 ** (32 - j)) == ipv4(a) / (2 ** (32 - j))) for j in range(33)]
    return z3.Or(*cases)


def canonical(net):
    one, a, n = split_once(net)
    k = int_val(n)
    return z3.Or(*[z3.And(k == j, ipv4(a) % (2 ** (32 - j)) == 0) for j in range(33)])


def install(e):
    smt.AXIOMS.extend(axioms())

    # ---- socket.inet_aton (assumed) ---------------------------------------------------------------
    def aton_res(c, a):
        s = z(a["$args"][0])
        r = c.fresh("bytes", "packed")
        c.assume(z3.And(slen(r.t) == 4, z3.Sum([at(r.t, i) * (256 ** (3 - i)) for i in range(4)]) == ipv4(s)))
        return r
    e.add(Contract("_socket:inet_aton", assumed=True, result=aton_res, havoc=lambda c, a, old, k: None,
                   normal_when=lambda c, old, a: inet_ok(z(a["$args"][0])),
                   raises=[(OSError, lambda c, old, a: z3.Not(inet_ok(z(a["$args"][0]))), None)],
                   doc="socket.inet_aton(s): 4 bytes, big-endian value ipv4(s), iff s is an IPv4 address (predicate inet_ok); else OSError"))

    # ---- _is_ip_address -------------------------------------------------------------------------------
    e.add(Contract(U + "_is_ip_address", cases=[("str", lambda c: dict(addr=c.fresh("str", "addr")))],
                   ensures=lambda c, old, a, res: z(res, "bool") == inet_ok(z(a["addr"])),
                   result=lambda c, a: c.fresh("bool", "is_ip"), props=("C19",), doc="result <=> inet_aton accepts addr"))

    # ---- _is_subnet_address -------------------------------------------------------------------------------
    e.add(Contract(U + "_is_subnet_address", cases=[("str", lambda c: dict(hostname=c.fresh("str", "entry")))],
                   ensures=lambda c, old, a, res: z(res, "bool") == is_cidr(z(a["hostname"])),
                   result=lambda c, a: c.fresh("bool", "is_subnet"), props=("C19",),
                   doc="result <=> `addr/n` with addr an IPv4 address and 0 <= n <= 32 (every prefix length, /32 included)"))

    # ---- _is_address_in_network -----------------------------------------------------------------------------
    e.add(Contract(U + "_is_address_in_network", cases=[("str", lambda c: dict(ip=c.fresh("str", "ip"), net=c.fresh("str", "net")))],
                   requires=lambda c, a: z3.And(inet_ok(z(a["ip"])), is_cidr(z(a["net"]))),
                   ensures=lambda c, old, a, res: z3.Implies(canonical(z(a["net"])), z(res, "bool") == in_block(z(a["ip"]), z(a["net"]))),
                   result=lambda c, a: c.fresh("bool", "in_net"), props=("C19",),
                   doc="for a canonical block a/n (host bits of a zero): result <=> the first n bits of ip and a agree, for every n in 0..32"))

    # ---- parse_url (C18) -----------------------------------------------------------------------------------------
    def urlparse_res(c, a):
        p = c.new_ext("urlparsed")
        p.attrs["hostname"] = c.fresh(("opt", "str"), "hostname")
        p.attrs["path"] = c.fresh("str", "path")
        p.attrs["query"] = c.fresh("str", "query")
        p.attrs["$port"] = c.fresh(("opt", "int"), "port")
        p.attrs["$port_bad"] = smt.fresh(smt.Bool, "port_out_of_range")
        p.attrs["username"] = c.fresh(("opt", "str"), "username")
        p.attrs["password"] = c.fresh(("opt", "str"), "password")
        pv = unopt(p.attrs["$port"])
        c.assume(z3.And(z(pv) >= 0, z(pv) <= 65535))
        c.ghost["$parsed"] = p
        return p
    e.add(Contract("urllib.parse:urlparse", assumed=True, result=urlparse_res, havoc=lambda c, a, old, k: None,
                   doc="urlparse(rest, scheme='http'): hostname (None if absent), path, query per RFC 3986; .port is None, an int in 0..65535, "
                       "or raises ValueError when read (non-numeric / out of range).  The grammar itself is covered by a bounded differential"))

    def parsed_attr(c, obj, attr, node):
        if attr == "port":
            if c.branch(obj.attrs["$port_bad"]):
                from pyvc.interp import py_exc
                raise py_exc(ValueError, "Port out of range 0-65535")
            return obj.attrs["$port"]
        from pyvc.ctx import Undecided
        raise Undecided(f"attribute {attr} of urlparse() result")
    e.ext_attr_hooks["urlparsed"] = parsed_attr

    def pu_case(c):
        return dict(url=c.fresh("str", "url"))

    def pu_parts(c, a):
        u = z(a["url"])
        i = z3.IndexOf(u, z3.StringVal(":"), 0)
        return u, z3.SubString(u, 0, i)

    def pu_post(c, old, a, res):
        p = c.ghost.get("$parsed")
        if p is None:
            return z3.BoolVal(False)
        u, scheme = pu_parts(c, a)
        host, port, path, query = p.attrs["hostname"], p.attrs["$port"], z(p.attrs["path"]), z(p.attrs["query"])
        h, prt, resource, secure = res
        is_wss = scheme == z3.StringVal("wss")
        pt = z3.And(z3.Not(zn(port)), z(unopt(port)) != 0)
        want_port = z3.If(pt, z(unopt(port)), z3.If(is_wss, 443, 80))
        want_res = z3.Concat(z3.If(z3.Length(path) > 0, path, z3.StringVal("/")),
                             z3.If(z3.Length(query) > 0, z3.Concat(z3.StringVal("?"), query), z3.StringVal("")))
        return z3.And(z3.Contains(u, z3.StringVal(":")), z3.Or(scheme == z3.StringVal("ws"), is_wss),
                      z3.Not(zn(host)), z3.Length(z(unopt(host))) > 0, z3.Not(p.attrs["$port_bad"]),
                      z(h) == z(unopt(host)), z(prt, "int") == want_port, z(resource) == want_res, z(secure, "bool") == is_wss)

    def pu_bad(c, old, a, exc):
        # refused: no ':' at all, a foreign scheme, no host, or a port urlparse itself rejects
        p = c.ghost.get("$parsed")
        u, scheme = pu_parts(c, a)
        if p is None:
            return z3.Not(z3.Contains(u, z3.StringVal(":")))
        host = p.attrs["hostname"]
        nohost = z3.Or(zn(host), z3.Length(z(unopt(host))) == 0)
        return z3.Or(nohost, p.attrs["$port_bad"], z3.Not(z3.Or(scheme == z3.StringVal("ws"), scheme == z3.StringVal("wss"))))
    e.contracts.pop("websocket._url:parse_url", None)
    e.add(Contract(U + "parse_url", cases=[("str", pu_case)], ensures=pu_post,
                   result=lambda c, a: (c.fresh("str", "host"), c.fresh("int", "port"), c.fresh("str", "resource"), c.fresh("bool", "is_secure")),
                   raises=[(ValueError, None, pu_bad)], havoc=lambda c, a, old, k: None, props=("C18", "C10"),
                   doc="(hostname, explicit port or 80 / 443, (path or '/') + ('?' + query if any), scheme == 'wss') for ws / wss URLs with a "
                       "host; anything else (no ':', other scheme, no host, bad port) -> ValueError; no other effect (nothing touches the network)"))
