"""Contracts for websocket/_url.py (C18 parse_url; C19 proxy selection and no_proxy exemption)."""
import socket as _socket
import z3
from pyvc import smt
from pyvc import models as _M
from pyvc import engine as _E
from pyvc.engine import Contract
from pyvc.values import SV, Ref, Ext, ExcVal, OptV, SymSeq, z, zn, unopt, tag_of
from pyvc.smt import S, Int, Sq, slen, at
import websocket._exceptions as X
import websocket._url as url_mod

U = "websocket._url:"
inet_ok = z3.Function("inet_ok", S, smt.Bool)   # socket.inet_aton(s) succeeds (s is an IPv4 address in a form inet_aton accepts)
ipv4 = z3.Function("ipv4", S, Int)              # its 32-bit value
int_ok, int_val = _E.M_int_ok, _E.M_int_val


def axioms():
    s = z3.Const("s", S)
    return [z3.ForAll([s], z3.Implies(inet_ok(s), z3.And(ipv4(s) >= 0, ipv4(s) < 2 ** 32)), patterns=[ipv4(s)])]


def split_once(s, sep="/"):
    """(has exactly one sep, part before, part after) of a z3 string."""
    sv = z3.StringVal(sep)
    i = z3.IndexOf(s, sv, 0)
    before = z3.SubString(s, 0, i)
    after = z3.SubString(s, i + len(sep), z3.Length(s) - i - len(sep))
    return z3.And(z3.Contains(s, sv), z3.Not(z3.Contains(after, sv))), before, after


def is_cidr(s):
    """`a/n` with a an IPv4 address and n an integer in 0..32 (every IPv4 prefix length)."""
    one, a, n = split_once(s)
    return z3.And(one, inet_ok(a), int_ok(n), int_val(n) >= 0, int_val(n) <= 32)


def in_block(ip, net):
    """ip lies in the CIDR block net = a/n (the first n bits agree)."""
    one, a, n = split_once(net)
    k = int_val(n)
    cases = [z3.And(k == j, ipv4(ip) / (2 ** (32 - j)) == ipv4(a) / (2 ** (32 - j))) for j in range(33)]
    return z3.Or(*cases)


def canonical(net):
    one, a, n = split_once(net)
    k = int_val(n)
    return z3.Or(*[z3.And(k == j, ipv4(a) % (2 ** (32 - j)) == 0) for j in range(33)])


def install(e):
    smt.AXIOMS.extend(axioms())
    _install_basic(e)
    install_proxy(e)
    install_proxy2(e)


def _install_basic(e):

    # ---- socket.inet_aton (assumed) ---------------------------------------------------------------
    def aton_res(c, a):
        s = z(a["$args"][0])
        r = c.fresh("bytes", "packed")
        c.assume(z3.And(slen(r.t) == 4, z3.Sum([at(r.t, i) * (256 ** (3 - i)) for i in range(4)]) == ipv4(s)))
        return r
    e.add(Contract("_socket:inet_aton", assumed=True, result=aton_res, havoc=lambda c, a, old, k: None,
                   normal_when=lambda c, old, a: inet_ok(z(a["$args"][0])),
                   raises=[(OSError, lambda c, old, a: z3.Not(inet_ok(z(a["$args"][0]))), None)],
                   doc="socket.inet_aton(s): 4 bytes, big-endian value ipv4(s), iff s is an IPv4 address (predicate inet_ok); else OSError"))

    # ---- _is_ip_address -------------------------------------------------------------------------------
    e.add(Contract(U + "_is_ip_address", cases=[("str", lambda c: dict(addr=c.fresh("str", "addr")))],
                   ensures=lambda c, old, a, res: z(res, "bool") == inet_ok(z(a["addr"])),
                   result=lambda c, a: c.fresh("bool", "is_ip"), props=("C19",), doc="result <=> inet_aton accepts addr"))

    # ---- _is_subnet_address -------------------------------------------------------------------------------
    e.add(Contract(U + "_is_subnet_address", cases=[("str", lambda c: dict(hostname=c.fresh("str", "entry")))],
                   ensures=lambda c, old, a, res: z(res, "bool") == is_cidr(z(a["hostname"])),
                   result=lambda c, a: c.fresh("bool", "is_subnet"), props=("C19",),
                   doc="result <=> `addr/n` with addr an IPv4 address and 0 <= n <= 32 (every prefix length, /32 included)"))

    # ---- _is_address_in_network -----------------------------------------------------------------------------
    e.add(Contract(U + "_is_address_in_network", cases=[("str", lambda c: dict(ip=c.fresh("str", "ip"), net=c.fresh("str", "net")))],
                   requires=lambda c, a: z3.And(inet_ok(z(a["ip"])), is_cidr(z(a["net"]))),
                   ensures=lambda c, old, a, res: z3.Implies(canonical(z(a["net"])), z(res, "bool") == in_block(z(a["ip"]), z(a["net"]))),
                   result=lambda c, a: c.fresh("bool", "in_net"), props=("C19",),
                   doc="for a canonical block a/n (host bits of a zero): result <=> the first n bits of ip and a agree, for every n in 0..32"))

    # ---- parse_url (C18) -----------------------------------------------------------------------------------------
    def split_res(keep_params):
        def res(c, a):
            """RFC 3986 components of the reference after the scheme.  `$rfc_path` is the path component as the RFC defines it
            (everything between the authority and the first '?' or '#'); urlparse - unlike urlsplit - cuts a trailing
            ';parameters' of the last segment off its .path and reports it as .params."""
            p = c.new_ext("urlparsed")
            p.attrs["hostname"] = c.fresh(("opt", "str"), "hostname")
            rfc_path = c.fresh("str", "rfc_path")
            p.attrs["$rfc_path"] = rfc_path
            if keep_params:
                p.attrs["path"] = rfc_path
            else:
                path, params = c.fresh("str", "path"), c.fresh("str", "params")
                p.attrs["path"], p.attrs["params"] = path, params
                SEMI = z3.StringVal(";")
                c.assume(z3.And(z3.Implies(z3.Length(params.t) == 0, z3.Or(rfc_path.t == path.t, rfc_path.t == z3.Concat(path.t, SEMI))),
                                z3.Implies(z3.Length(params.t) > 0, rfc_path.t == z3.Concat(path.t, SEMI, params.t)),
                                z3.Implies(z3.Length(path.t) == 0, z3.Length(rfc_path.t) == 0)))
            p.attrs["query"] = c.fresh("str", "query")
            p.attrs["$port"] = c.fresh(("opt", "int"), "port")
            p.attrs["$port_bad"] = smt.fresh(smt.Bool, "port_out_of_range")
            p.attrs["username"] = c.fresh(("opt", "str"), "username")
            p.attrs["password"] = c.fresh(("opt", "str"), "password")
            pv = unopt(p.attrs["$port"])
            c.assume(z3.And(z(pv) >= 0, z(pv) <= 65535))
            c.ghost["$parsed"] = p
            return p
        return res
    e.add(Contract("urllib.parse:urlparse", assumed=True, result=split_res(False), havoc=lambda c, a, old, k: None,
                   doc="urlparse(rest, scheme='http'): hostname (None if absent), query per RFC 3986; .path is the RFC path WITHOUT the "
                       "';parameters' of its last segment, which are reported as .params; .port is None, an int in 0..65535, "
                       "or raises ValueError when read (non-numeric / out of range).  The grammar itself is covered by a bounded differential"))
    e.add(Contract("urllib.parse:urlsplit", assumed=True, result=split_res(True), havoc=lambda c, a, old, k: None,
                   doc="urlsplit(rest, scheme='http'): like urlparse, but .path is the whole RFC 3986 path (parameters are not split off)"))

    def parsed_attr(c, obj, attr, node):
        if attr == "port":
            if c.branch(obj.attrs["$port_bad"]):
                from pyvc.interp import py_exc
                raise py_exc(ValueError, "Port out of range 0-65535")
            return obj.attrs["$port"]
        from pyvc.ctx import Undecided
        raise Undecided(f"attribute {attr} of urlparse() result")
    e.ext_attr_hooks["urlparsed"] = parsed_attr

    def pu_case(c):
        return dict(url=c.fresh("str", "url"))

    def pu_parts(c, a):
        u = z(a["url"])
        i = z3.IndexOf(u, z3.StringVal(":"), 0)
        return u, z3.SubString(u, 0, i)

    def pu_post(c, old, a, res):
        p = c.ghost.get("$parsed") if c.mode == "prove" else None
        if p is None and c.mode == "assume":
            # at a call site the components are the function's results themselves; what callers rely on:
            u, scheme = pu_parts(c, a)
            h, prt, resource, secure = res
            is_wss = scheme == z3.StringVal("wss")
            return z3.And(z3.Contains(u, z3.StringVal(":")), z3.Or(scheme == z3.StringVal("ws"), is_wss), z3.Length(z(h)) > 0,
                          z(secure, "bool") == is_wss, z3.PrefixOf(z3.StringVal("/"), z(resource)) if False else z3.BoolVal(True))
        if p is None:
            return z3.BoolVal(False)
        u, scheme = pu_parts(c, a)
        host, port, path, query = p.attrs["hostname"], p.attrs["$port"], z(p.attrs["$rfc_path"]), z(p.attrs["query"])
        h, prt, resource, secure = res
        is_wss = scheme == z3.StringVal("wss")
        pt = z3.And(z3.Not(zn(port)), z(unopt(port)) != 0)
        want_port = z3.If(pt, z(unopt(port)), z3.If(is_wss, 443, 80))
        want_res = z3.Concat(z3.If(z3.Length(path) > 0, path, z3.StringVal("/")),
                             z3.If(z3.Length(query) > 0, z3.Concat(z3.StringVal("?"), query), z3.StringVal("")))
        return z3.And(z3.Contains(u, z3.StringVal(":")), z3.Or(scheme == z3.StringVal("ws"), is_wss),
                      z3.Not(zn(host)), z3.Length(z(unopt(host))) > 0, z3.Not(p.attrs["$port_bad"]),
                      z(h) == z(unopt(host)), z(prt, "int") == want_port, z(resource) == want_res, z(secure, "bool") == is_wss)

    def pu_bad(c, old, a, exc):
        # refused: no ':' at all, a foreign scheme, no host, or a port urlparse itself rejects
        p = c.ghost.get("$parsed")
        u, scheme = pu_parts(c, a)
        if p is None:
            return z3.Not(z3.Contains(u, z3.StringVal(":")))
        host = p.attrs["hostname"]
        nohost = z3.Or(zn(host), z3.Length(z(unopt(host))) == 0)
        return z3.Or(nohost, p.attrs["$port_bad"], z3.Not(z3.Or(scheme == z3.StringVal("ws"), scheme == z3.StringVal("wss"))))
    e.contracts.pop("websocket._url:parse_url", None)
    e.add(Contract(U + "parse_url", cases=[("str", pu_case)], ensures=pu_post,
                   result=lambda c, a: (c.fresh("str", "host"), c.fresh("int", "port"), c.fresh("str", "resource"), c.fresh("bool", "is_secure")),
                   raises=[(ValueError, None, pu_bad)], havoc=lambda c, a, old, k: None, props=("C18", "C10"),
                   doc="(hostname, explicit port or 80 / 443, (path or '/') + ('?' + query if any), scheme == 'wss') for ws / wss URLs with a "
                       "host; anything else (no ':', other scheme, no host, bad port) -> ValueError; no other effect (nothing touches the network)"))


# ===================================================================== no_proxy exemption and proxy selection (C19)
npE = z3.Function("np_entry", Int, S)          # entries of the no_proxy list in effect
npF = z3.Function("np_dot_entry", Int, S)      # its sub-list of entries starting with "."
np_src = z3.Function("np_src", Int, Int)
np_pos = z3.Function("np_pos", Int, Int)
ain = z3.Function("addr_in_net", S, S, smt.Bool)   # value returned by _is_address_in_network (a pure function of its arguments)
env_has = z3.Function("env_has", S, smt.Bool)
env_val = z3.Function("env_val", S, S)
fields_len = z3.Function("fields_len", S, Int)
fields_at = z3.Function("fields_at", S, Int, S)
DOT = z3.StringVal(".")


def strip_dots(d):
    return _M.str_lstrip1(d, DOT)


def dmatch(host, d):
    """host belongs to the leading-dot domain d: the domain itself or a sub-domain, on a label boundary."""
    sd = strip_dots(d)
    return z3.Or(host == sd, z3.SuffixOf(z3.Concat(DOT, sd), host))


def exempt_spec(host, n, E):
    j = z3.Int("j!x")
    rng = lambda body: z3.Exists([j], z3.And(0 <= j, j < n, body))
    return z3.Or(rng(E(j) == z3.StringVal("*")), rng(E(j) == host),
                 z3.And(inet_ok(host), rng(z3.And(is_cidr(E(j)), ain(host, E(j))))),
                 z3.And(z3.Not(inet_ok(host)), rng(z3.And(z3.PrefixOf(DOT, E(j)), dmatch(host, E(j))))))


def install_proxy(e):
    from pyvc.interp import mk
    # _is_address_in_network is a function of its arguments: tie its result to `ain`
    c_ain = e.contracts[U + "_is_address_in_network"]
    base = c_ain.ensures
    # (`ain` names the value the function returns for given arguments: a definition, used only where the contract is applied)
    c_ain.ensures = lambda c, old, a, res: z3.And(base(c, old, a, res), z(res, "bool") == ain(z(a["ip"]), z(a["net"]))) \
        if c.mode == "assume" else base(c, old, a, res)
    c_ain.ghost_entry = None
    # when its body is verified `ain` is still unconstrained for these arguments: define it by the result (a pure function)
    k = z3.Int("k")
    j = z3.Int("j")

    def env_get(c, a):
        args = a["$args"]
        name = z(args[0])
        default = args[1] if len(args) > 1 else None
        if default is None:
            return OptV(z3.Not(env_has(name)), SV("str", env_val(name)))
        return SV("str", z3.If(env_has(name), env_val(name), z(default)))
    e.add(Contract("real:_Environ.get", assumed=True, result=env_get, havoc=lambda c, a, old, k_: None,
                   doc="os.environ.get(name[, default]): the process environment is an unconstrained map (ghost functions env_has / env_val)"))

    def np_list(c, n):
        return c.alloc("list", None, SymSeq(n, lambda c_, i: mk("str", npE(z(i, "int"))), "no_proxy", fn=npE))

    def split_env(c, val, sep, maxsplit, node):
        # v.split(","): the entries of the environment value; they become the list in effect
        v = z(val)
        n = SV("int", fields_len(v))
        c.assume(fields_len(v) >= 1)
        c.assume(z3.ForAll([j], z3.Implies(z3.And(0 <= j, j < fields_len(v)), fields_at(v, j) == npE(j)), patterns=[npE(j)]))
        c.ghost["$np_len"] = n
        return np_list(c, n)
    e.split_hooks["_is_no_proxy_host"] = split_env

    def comp_hook(c, interp, node):
        """the two list comprehensions of _is_no_proxy_host over the (abstract) no_proxy list."""
        fr = c.frames[-1]
        np_ = fr.locals.get("no_proxy")
        if not (isinstance(np_, Ref) and isinstance(c.cell(np_).data, SymSeq) and c.cell(np_).data.fn is not None):
            return None
        seq = c.cell(np_).data
        n = z(seq.length, "int")
        src = ast_src(node)
        host = z(fr.locals["hostname"])
        if "_is_address_in_network" in src:
            jj = z3.Int("j!x")
            val = z3.Exists([jj], z3.And(0 <= jj, jj < n, z3.And(is_cidr(npE(jj)), ain(host, npE(jj)))))
            return ("$anylist", val)
        if "startswith" in src:
            m = smt.fresh(Int, "ndot")
            c.assume(m >= 0)
            c.assume(z3.ForAll([k], z3.Implies(z3.And(0 <= k, k < m),
                                               z3.And(0 <= np_src(k), np_src(k) < n, npF(k) == npE(np_src(k)), z3.PrefixOf(DOT, npF(k)))), patterns=[npF(k)]))
            c.assume(z3.ForAll([j], z3.Implies(z3.And(0 <= j, j < n, z3.PrefixOf(DOT, npE(j))),
                                               z3.And(0 <= np_pos(j), np_pos(j) < m, npF(np_pos(j)) == npE(j))), patterns=[npE(j)]))
            c.ghost["$ndot"] = SV("int", m)
            return c.alloc("list", None, SymSeq(SV("int", m), lambda c_, i: mk("str", npF(z(i, "int"))), "dot_entries", fn=npF))
        return None
    e.comprehension_hooks.setdefault("_is_no_proxy_host", []).append(comp_hook)
    import builtins
    base_any = e.models.call_table[builtins.any]

    def any_model(c, a, kw, n_):
        if isinstance(a[0], tuple) and len(a[0]) == 2 and a[0][0] == "$anylist":
            return mk("bool", a[0][1])
        return base_any(c, a, kw, n_)
    e.models.call_table[builtins.any] = any_model

    def nph_inv(c, fr, entry):
        host = z(fr.locals["hostname"])
        i = z(fr.locals["$i0"], "int")
        return z3.ForAll([k], z3.Implies(z3.And(0 <= k, k < i), z3.Not(dmatch(host, npF(k)))), patterns=[npF(k)])
    e.loop("_is_no_proxy_host", 0, inv=nph_inv, shapes={"endDomain": "str", "domain": "str"})

    def nph_case(kind):
        def case(c):
            host = c.fresh("str", "hostname")
            if kind == "option":
                n = c.fresh("int", "n_entries")
                c.assume(n.t >= 1)
                c.ghost["$np_len"] = n
                return dict(hostname=host, no_proxy=np_list(c, n))
            return dict(hostname=host, no_proxy=None)
        return case

    def nph_post(c, old, a, res):
        host = z(a["hostname"])
        if a["no_proxy"] is None:
            v = _M.str_replace_all(z3.If(env_has(z3.StringVal("no_proxy")), env_val(z3.StringVal("no_proxy")),
                                         z3.If(env_has(z3.StringVal("NO_PROXY")), env_val(z3.StringVal("NO_PROXY")), z3.StringVal(""))),
                                   z3.StringVal(" "), z3.StringVal(""))
            n = z3.If(z3.Length(v) > 0, fields_len(v), 0)
            listed = z3.Implies(z3.Length(v) > 0, z3.ForAll([j], z3.Implies(z3.And(0 <= j, j < fields_len(v)), fields_at(v, j) == npE(j)), patterns=[npE(j)]))
            return z3.Implies(listed, z(res, "bool") == exempt_spec(host, n, npE))
        n = z(c.ghost["$np_len"], "int")
        return z(res, "bool") == exempt_spec(host, n, npE)
    e.add(Contract(U + "_is_no_proxy_host", cases=[("no_proxy-option", nph_case("option")), ("environment", nph_case("env"))],
                   ensures=nph_post, result=lambda c, a: c.fresh("bool", "exempt"), havoc=lambda c, a, old, k_: None, props=("C19",),
                   doc="exempt <=> the no_proxy list in effect (option if non-empty, else the comma separated no_proxy / NO_PROXY variable with "
                       "blanks removed) contains '*', the host itself, a CIDR block containing the host's IPv4 address, or - for a host that is "
                       "not an IP address - a leading-dot domain to which it belongs on a label boundary"))


def ast_src(node):
    import ast
    try:
        return ast.unparse(node)
    except Exception:
        return ""


def install_proxy2(e):
    """get_proxy_info (C19)."""
    from pyvc.interp import mk
    b64 = z3.Function("b64", Sq, Sq)
    e.b64 = b64
    unq = z3.Function("unquote", S, S)
    x = z3.Const("x", Sq)
    smt.AXIOMS.append(z3.ForAll([x], smt.wf_utf8(_M.bytes_strip(b64(x))), patterns=[b64(x)]))
    e.add(Contract("base64:encodebytes", assumed=True, result=lambda c, a: SV("bytes", b64(z(a["$args"][0]))), havoc=lambda c, a, old, k: None,
                   doc="base64.encodebytes: an uninterpreted function of its argument whose output is ASCII"))
    e.add(Contract("urllib.parse:unquote", assumed=True, requires=lambda c, a: z3.BoolVal(a["$args"][0] is not None),
                   result=lambda c, a: SV("str", unq(z(a["$args"][0]))), havoc=lambda c, a, old, k: None,
                   doc="unquote(s): an uninterpreted function of a str argument (None is a TypeError: required to be impossible)"))

    def gpi_case(npkind):
        def case(c):
            d = dict(hostname=c.fresh("str", "hostname"), is_secure=c.fresh("bool", "is_secure"),
                     proxy_host=c.fresh(("opt", "str"), "proxy_host"), proxy_port=c.fresh("int", "proxy_port"),
                     proxy_auth=c.fresh(("opt", ("tuple", ["str", "str"])), "proxy_auth"))
            if npkind == "option":
                n = c.fresh("int", "n_entries")
                c.assume(n.t >= 1)
                c.ghost["$np_len"] = n
                d["no_proxy"] = c.alloc("list", None, SymSeq(n, lambda c_, i: mk("str", npE(z(i, "int"))), "no_proxy", fn=npE))
            else:
                d["no_proxy"] = None
            return d
        return case

    def envvar(lower):
        lo, up = z3.StringVal(lower), z3.StringVal(lower.upper())
        return _M.str_replace_all(z3.If(env_has(lo), env_val(lo), z3.If(env_has(up), env_val(up), z3.StringVal(""))), z3.StringVal(" "), z3.StringVal(""))

    def gpi_post(c, old, a, res):
        host = z(a["hostname"])
        ph = a["proxy_host"]
        has_opt = z3.And(z3.Not(zn(ph)), z3.Length(z(unopt(ph))) > 0) if unopt(ph) is not None else z3.BoolVal(False)
        rh, rp, ra = res
        none_triple = z3.And(zn(rh), z3.BoolVal(tag_of(rp) != "opt" and not isinstance(rp, SV)) if False else (z(rp, "int") == 0 if tag_of(rp) in ("int", "bool") else z3.BoolVal(False)), zn(ra))
        ex = c.ghost.get("$exempt")
        if ex is None and c.mode == "assume":
            # use at a call site: the exemption verdict is that of _is_no_proxy_host for these arguments (an unconstrained boolean here)
            ex = c.fresh("bool", "exempt")
        if ex is None:
            return z3.BoolVal(False)
        exempt = z(ex, "bool")
        envv = z3.If(z(a["is_secure"], "bool"), envvar("https_proxy"), envvar("http_proxy"))
        p = c.ghost.get("$parsed")
        from_opt = z3.And(z3.Not(zn(rh)), (z(unopt(rh)) == z(unopt(ph))) if unopt(rh) is not None and unopt(ph) is not None else z3.BoolVal(False),
                          (z(rp, "int") == z(a["proxy_port"], "int")) if tag_of(rp) in ("int", "bool") else z3.BoolVal(False),
                          z(a["proxy_port"], "int") != 0, e.interp.same_value(c, ra, a["proxy_auth"]))
        if p is not None:
            from_env = z3.And(z3.Length(envv) > 0, e.interp.same_value(c, rh, p.attrs["hostname"]), e.interp.same_value(c, rp, p.attrs["$port"]))
        else:
            from_env = z3.BoolVal(c.mode == "assume")
        return z3.And(z3.Implies(exempt, none_triple),
                      z3.Implies(z3.And(z3.Not(exempt), has_opt), from_opt),
                      z3.Implies(z3.And(z3.Not(exempt), z3.Not(has_opt), z3.Length(envv) > 0), from_env),
                      z3.Implies(z3.And(z3.Not(exempt), z3.Not(has_opt), z3.Length(envv) == 0), none_triple))

    def gpi_noport(c, old, a):
        ph = a["proxy_host"]
        has_opt = z3.And(z3.Not(zn(ph)), z3.Length(z(unopt(ph))) > 0) if unopt(ph) is not None else z3.BoolVal(False)
        return z3.And(has_opt, z(a["proxy_port"], "int") == 0)
    # remember the exemption verdict used by this call (ghost)
    e.after_call[("get_proxy_info", "_is_no_proxy_host")] = lambda c, fr, r: c.ghost.__setitem__("$exempt", r)
    e.add(Contract(U + "get_proxy_info", cases=[("no_proxy-option", gpi_case("option")), ("environment", gpi_case("env"))],
                   ensures=gpi_post,
                   result=lambda c, a: (c.fresh(("opt", "str"), "phost"), c.fresh(("opt", "int"), "pport"), c.fresh(("opt", ("tuple", ["str", "str"])), "pauth")),
                   raises=[(X.WebSocketProxyException, gpi_noport, None), (ValueError, None, None)], havoc=lambda c, a, old, k: None,
                   props=("C19",),
                   doc="exempt target: (None, 0, None); else the proxy given by option (a port is required); else the scheme's variable "
                       "(http_proxy for ws, https_proxy for wss, lower-case name first, blanks removed) parsed as a URL; else no proxy"))
