"""Native harnesses: in-memory transport, executable specs, concretisers and replays on the real code."""
