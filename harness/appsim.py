"""Bounded scenario harness for WebSocketApp.run_forever (composition of the closures proved separately):
a scripted RFC 6455 server on loopback TCP, the real WebSocketApp in the calling thread, callback traces checked
against the statements of C13-C15.  Labelled *bounded* wherever it is used; never counted as proof."""
import base64
import hashlib
import socket
import threading
import time

from . import specexec as S

GUID = b"258EAFA5-E914-47DA-95CA-C5AB0DC85B11"
# patience factor for the waits that only bound how long the harness waits for the client (not the ones that define a scenario's
# timing): a scenario that fails is repeated with more patience, and only a failure that survives every attempt is reported -
# a loaded machine must not turn into an alarm
PATIENCE = [1.0]


class Peer:
    """Scripted server.  scripts[i] drives the i-th accepted connection: a list of actions
    ('send', bytes) | ('sleep', s) | ('eof',) | ('drop',) before handshake | ('reject', status) | ('wait', s) | ('until_close', s)."""

    def __init__(self, scripts):
        self.scripts = scripts
        self.lsock = socket.socket()
        self.lsock.setsockopt(socket.SOL_SOCKET, socket.SO_REUSEADDR, 1)
        self.lsock.bind(("127.0.0.1", 0))
        self.lsock.listen(8)
        self.port = self.lsock.getsockname()[1]
        self.accept_times = []
        self.received = []  # per connection: list of decoded client frames
        self.stop = False
        self.threads = []
        self.t = threading.Thread(target=self._accept, daemon=True)
        self.t.start()

    def _accept(self):
        self.lsock.settimeout(0.05)
        i = 0
        while not self.stop:
            try:
                conn, _ = self.lsock.accept()
            except socket.timeout:
                continue
            except OSError:
                return
            self.accept_times.append(time.time())
            self.received.append([])
            script = self.scripts[i] if i < len(self.scripts) else [("eof",)]
            th = threading.Thread(target=self._serve, args=(conn, script, i), daemon=True)
            th.start()
            self.threads.append(th)
            i += 1

    def _serve(self, conn, script, idx):
        try:
            conn.settimeout(2)
            if script and script[0][0] == "drop":
                conn.close()
                return
            head = b""
            while b"\r\n\r\n" not in head:
                b = conn.recv(4096)
                if not b:
                    return
                head += b
            if script and script[0][0] == "reject":
                conn.sendall(b"HTTP/1.1 %d Nope\r\nContent-Length: 0\r\n\r\n" % script[0][1])
                conn.close()
                return
            key = [l.split(b":", 1)[1].strip() for l in head.split(b"\r\n") if l.lower().startswith(b"sec-websocket-key")][0]
            acc = base64.b64encode(hashlib.sha1(key + GUID).digest())
            conn.sendall(b"HTTP/1.1 101 Switching Protocols\r\nUpgrade: websocket\r\nConnection: Upgrade\r\nSec-WebSocket-Accept: " + acc + b"\r\n\r\n")
            buf = b""

            def pump(duration, until_close=False):
                nonlocal buf
                end = time.time() + duration
                conn.settimeout(0.02)
                while time.time() < end:
                    try:
                        b = conn.recv(65536)
                        if not b:
                            return
                        buf += b
                    except socket.timeout:
                        pass
                    except OSError:
                        return
                    while True:
                        f = S.rfc_decode(buf, 0)
                        if f is None:
                            break
                        buf = buf[f["next"]:]
                        self.received[idx].append((time.time(), f))
                        if until_close and f["opcode"] == 8:
                            return
            for act in script:
                if act[0] == "send":
                    conn.sendall(act[1])
                elif act[0] == "sleep":
                    pump(act[1])
                elif act[0] == "until_close":
                    pump(act[1] * PATIENCE[0], until_close=True)
                elif act[0] == "eof":
                    break
            pump(0.05)
        except OSError:
            pass
        finally:
            try:
                conn.close()
            except OSError:
                pass

    def close(self):
        self.stop = True
        try:
            self.lsock.close()
        except OSError:
            pass


def run_app(scripts, callbacks=("on_open", "on_message", "on_data", "on_error", "on_close", "on_ping", "on_pong", "on_reconnect"),
            behaviours=None, runs=1, timeout=4.0, **run_kwargs):
    """Run the real WebSocketApp against the scripted peer.  behaviours: {callback: 'raise' | 'close' | 'raise_once'}.
    Returns dict(trace=[(name, args...)], results=[return values], peer=Peer, elapsed)."""
    import websocket
    peer = Peer(scripts)
    trace = []
    behaviours = dict(behaviours or {})
    state = {"raised": set()}

    def mk(name):
        def cb(app, *args):
            norm = []
            for a in args:
                if isinstance(a, BaseException):
                    norm.append(type(a).__name__)
                elif isinstance(a, (bytes, bytearray)):
                    norm.append(bytes(a))
                else:
                    norm.append(a)
            trace.append((name,) + tuple(norm) + (("t", time.time()),))
            b = behaviours.get(name)
            if b == "raise" or (b == "raise_once" and name not in state["raised"]):
                state["raised"].add(name)
                raise ValueError("callback failure")
            if b == "interrupt" and name not in state["raised"]:
                state["raised"].add(name)
                raise KeyboardInterrupt()
            if b == "close":
                app.close()
        return cb
    kw = {n: mk(n) for n in callbacks}
    app = websocket.WebSocketApp(f"ws://127.0.0.1:{peer.port}/", **kw)
    results = []
    t0 = time.time()
    try:
        for _ in range(runs):
            done = []

            def target():
                try:
                    done.append(app.run_forever(**run_kwargs))
                except BaseException as ex:  # noqa
                    done.append(("raised", type(ex).__name__))
            th = threading.Thread(target=target, daemon=True)
            th.start()
            th.join(timeout * PATIENCE[0])
            if th.is_alive():
                app.keep_running = False
                try:
                    app.close()
                except Exception:
                    pass
                th.join(1.0)
                results.append("did-not-return")
            else:
                results.append(done[0] if done else None)
    finally:
        # let the server threads drain what the client wrote last (its close frame) before the records are inspected
        for sth in list(peer.threads):
            sth.join(1.5 * PATIENCE[0])
        peer.close()
    return dict(trace=trace, results=results, peer=peer, elapsed=time.time() - t0, app=app)


def names(trace):
    return [t[0] for t in trace]


def strip(trace):
    return [tuple(x for x in t if not (isinstance(x, tuple) and x[:1] == ("t",))) for t in trace]


def F(fin, op, payload):
    return S.rfc_encode(fin, op, payload)


CLOSE_BYE = F(1, 8, (1000).to_bytes(2, "big") + b"bye")

# ---------------------------------------------------------------------------------------------------------------------
# scenarios: (id, kwargs for run_app, checker(result) -> list of problems)


def _expect(id_, got, want, what):
    return [] if got == want else [f"{id_}: {what}: got {got!r}, expected {want!r}"]


def sc_traffic():
    script = [[("send", F(1, 1, b"hi") + F(1, 2, b"\x00\x01") + F(0, 1, b"a") + F(0, 0, b"b") + F(1, 0, b"c") + F(1, 9, b"p") + F(1, 10, b"q")),
               ("sleep", 0.15), ("send", CLOSE_BYE), ("until_close", 0.5)]]
    r = run_app(script)
    want = [("on_open",), ("on_data", "hi", 1, True), ("on_message", "hi"), ("on_data", b"\x00\x01", 2, True), ("on_message", b"\x00\x01"),
            ("on_data", "abc", 1, True), ("on_message", "abc"), ("on_ping", b"p"), ("on_pong", b"q"), ("on_close", 1000, "bye")]
    p = _expect("traffic", strip(r["trace"]), want, "callback trace") + _expect("traffic", r["results"], [False], "return value")
    pongs = [f for _, f in r["peer"].received[0] if f["opcode"] == 10] if r["peer"].received else []
    closes = [f for _, f in r["peer"].received[0] if f["opcode"] == 8] if r["peer"].received else []
    p += _expect("traffic", [f["payload"] for f in pongs], [b"p"], "pongs seen by the server")
    p += _expect("traffic", len(closes), 1, "close frames seen by the server")
    p += _expect("traffic", len(r["peer"].accept_times), 1, "connections")
    return p


def sc_eof():
    r = run_app([[("send", F(1, 1, b"x")), ("sleep", 0.05), ("eof",)]])
    want = [("on_open",), ("on_data", "x", 1, True), ("on_message", "x"), ("on_error", "WebSocketConnectionClosedException"), ("on_close", None, None)]
    return _expect("eof", strip(r["trace"]), want, "callback trace") + _expect("eof", r["results"], [True], "return value")


def sc_callback_raises():
    r = run_app([[("send", F(1, 1, b"1") + F(1, 1, b"2")), ("sleep", 0.1), ("send", CLOSE_BYE), ("until_close", 0.5)]],
                behaviours={"on_message": "raise_once"})
    want = [("on_open",), ("on_data", "1", 1, True), ("on_message", "1"), ("on_error", "ValueError"), ("on_data", "2", 1, True), ("on_message", "2"),
            ("on_close", 1000, "bye")]
    return _expect("cb-raises", strip(r["trace"]), want, "callback trace") + _expect("cb-raises", r["results"], [False], "return value")


def sc_interrupt_in_callback():
    """KeyboardInterrupt raised inside a callback: reported, torn down, and run_forever still returns (True: an error was reported)."""
    r = run_app([[("send", F(1, 1, b"1") + F(1, 1, b"2")), ("sleep", 0.3)]], behaviours={"on_message": "interrupt"})
    want = [("on_open",), ("on_data", "1", 1, True), ("on_message", "1"), ("on_error", "KeyboardInterrupt"), ("on_close", None, None)]
    return _expect("interrupt-in-callback", strip(r["trace"]), want, "callback trace") + \
        _expect("interrupt-in-callback", r["results"], [True], "return value") + \
        _expect("interrupt-in-callback", r["app"].sock, None, "socket after the run")


def sc_interrupt_in_on_close():
    """close() from a callback, then KeyboardInterrupt raised by on_close during the final teardown: run_forever still returns."""
    r = run_app([[("send", F(1, 1, b"1")), ("sleep", 0.3)]], behaviours={"on_message": "close", "on_close": "interrupt"})
    want = [("on_open",), ("on_data", "1", 1, True), ("on_message", "1"), ("on_close", None, None)]
    return _expect("interrupt-in-on_close", strip(r["trace"]), want, "callback trace") + \
        _expect("interrupt-in-on_close", r["results"], [False], "return value (no error was reported)") + \
        _expect("interrupt-in-on_close", r["app"].sock, None, "socket after the run")


def sc_close_in_open():
    r = run_app([[("sleep", 0.3)]], behaviours={"on_open": "close"})
    return _expect("close-in-open", strip(r["trace"]), [("on_open",), ("on_close", None, None)], "callback trace") + \
        _expect("close-in-open", r["results"], [False], "return value")


def sc_close_in_message():
    r = run_app([[("send", F(1, 1, b"1")), ("sleep", 0.3)]], behaviours={"on_message": "close"})
    want = [("on_open",), ("on_data", "1", 1, True), ("on_message", "1"), ("on_close", None, None)]
    return _expect("close-in-message", strip(r["trace"]), want, "callback trace") + _expect("close-in-message", r["results"], [False], "return value")


def sc_protocol_error():
    r = run_app([[("send", bytes([0x81 | 0x40, 1, 65])), ("sleep", 0.2)]])
    want = [("on_open",), ("on_error", "WebSocketProtocolException"), ("on_close", None, None)]
    return _expect("protocol-error", strip(r["trace"]), want, "callback trace") + _expect("protocol-error", r["results"], [True], "return value")


def sc_second_run():
    r = run_app([[("eof",)], [("send", CLOSE_BYE), ("until_close", 0.5)]], runs=2)
    p = _expect("second-run", r["results"], [True, False], "return values of two runs of the same object")
    p += _expect("second-run", names(r["trace"]).count("on_close"), 2, "on_close calls over two runs")
    return p


def sc_close_empty_body():
    r = run_app([[("send", F(1, 8, b"")), ("until_close", 0.5)]])
    return _expect("close-empty", strip(r["trace"]), [("on_open",), ("on_close", None, None)], "callback trace") + \
        _expect("close-empty", r["results"], [False], "return value")


def sc_reconnect():
    iv = 0.2
    r = run_app([[("send", F(1, 1, b"a")), ("sleep", 0.05), ("eof",)], [("drop",)],
                 [("send", F(1, 1, b"b")), ("sleep", 0.1), ("send", CLOSE_BYE), ("until_close", 0.5)]], reconnect=iv, timeout=6.0)
    tr = strip(r["trace"])
    p = []
    nm = names(tr)
    p += _expect("reconnect", nm.count("on_close"), 1, "on_close calls")
    if nm and nm[-1] != "on_close":
        p.append(f"reconnect: on_close is not last: {nm}")
    if ("on_message", "b") not in tr:
        p.append(f"reconnect: no message after reconnecting: {tr}")
    if "on_reconnect" not in nm:
        p.append(f"reconnect: on_reconnect not fired: {nm}")
    at = r["peer"].accept_times
    p += _expect("reconnect", len(at), 3, "connection attempts (lost, refused, accepted; none after the server's close)")
    for a, b in zip(at, at[1:]):
        if b - a < iv * 0.9:
            p.append(f"reconnect: attempt only {b - a:.3f}s after the previous one (interval {iv})")
    return p


def sc_close_during_reconnect_wait():
    """the application's close() from another thread while the built-in loop waits for the next attempt: the run ends with no
    further connection attempt (C15, last sentence)."""
    import websocket
    peer = Peer([[("sleep", 0.05), ("eof",)], [("sleep", 0.3)], [("sleep", 0.3)]])
    trace, out = [], []
    app = websocket.WebSocketApp(f"ws://127.0.0.1:{peer.port}/", on_open=lambda a: trace.append("on_open"),
                                 on_error=lambda a, e: trace.append("on_error"), on_close=lambda a, c, r: trace.append("on_close"),
                                 on_reconnect=lambda a: trace.append("on_reconnect"))
    th = threading.Thread(target=lambda: out.append(app.run_forever(reconnect=1)), daemon=True)
    th.start()
    try:
        t_end = time.time() + 3.0 * PATIENCE[0]
        while "on_error" not in trace and time.time() < t_end:   # the connection is lost, the loop starts its 1 s pause
            time.sleep(0.02)
        time.sleep(0.2)
        app.close()
        th.join(4.0 * PATIENCE[0])
        time.sleep(0.3)
        p = _expect("close-during-reconnect-wait", len(peer.accept_times), 1, "connection attempts (none after close())")
        if "on_reconnect" in trace:
            p.append(f"close-during-reconnect-wait: reconnected after close(): {trace}")
        if th.is_alive():
            p.append("close-during-reconnect-wait: run_forever did not return")
        p += _expect("close-during-reconnect-wait", trace.count("on_close"), 1, "on_close calls")
        return p
    finally:
        app.keep_running = False
        peer.close()


class MiniLoop:
    """A minimal external dispatcher with the interface WebSocketApp expects of one (the `rel` package): read(sock, callback),
    timeout(seconds, callback, *args), signal(sig, callback), abort(), buffwrite(sock, data, send, on_disconnect)."""

    def __init__(self):
        self.readers, self.timers, self.seq, self.aborted = {}, [], 0, False

    def signal(self, sig, callback):
        pass

    def abort(self):
        self.aborted = True

    def read(self, sock, callback):
        self.readers[sock] = callback

    def timeout(self, seconds, callback, *args):
        import heapq
        self.seq += 1
        heapq.heappush(self.timers, (time.time() + seconds, self.seq, callback, args))

    def buffwrite(self, sock, data, send, on_disconnect):
        send(sock, data)

    def run(self, until, deadline):
        import heapq
        import select
        while not self.aborted and not until() and time.time() < deadline:
            for s_ in [x for x in self.readers if x.fileno() < 0]:
                del self.readers[s_]
            wait = 0.02
            if self.timers:
                wait = max(0.0, min(wait, self.timers[0][0] - time.time()))
            socks = list(self.readers)
            ready = select.select(socks, [], [], wait)[0] if socks else (time.sleep(wait) or [])
            for s_ in ready:
                cb = self.readers.get(s_)
                if cb is not None and not cb():
                    self.readers.pop(s_, None)
            while self.timers and self.timers[0][0] <= time.time():
                _, _, cb, args = heapq.heappop(self.timers)
                cb(*args)


def run_app_external(scripts, timeout=5.0, behaviours=None, **run_kwargs):
    """like run_app, with an external dispatcher: run_forever registers the callbacks and returns; the loop runs here."""
    import websocket
    peer = Peer(scripts)
    trace = []
    behaviours = dict(behaviours or {})

    def mk(name):
        def cb(app, *args):
            trace.append((name,) + tuple(type(a).__name__ if isinstance(a, BaseException) else a for a in args))
            if behaviours.get(name) == "close":
                app.close()
        return cb
    names_ = ("on_open", "on_message", "on_error", "on_close", "on_reconnect")
    app = websocket.WebSocketApp(f"ws://127.0.0.1:{peer.port}/", **{n: mk(n) for n in names_})
    loop = MiniLoop()
    try:
        ret = app.run_forever(dispatcher=loop, **run_kwargs)
        loop.run(lambda: any(t[0] == "on_close" for t in trace), time.time() + timeout * PATIENCE[0])
        settle = time.time() + 0.5
        loop.run(lambda: False, settle)   # anything still scheduled after on_close (a stray reconnect) gets its chance
    finally:
        for sth in list(peer.threads):
            sth.join(1.5 * PATIENCE[0])
        peer.close()
    return dict(trace=trace, ret=ret, peer=peer, app=app)


def sc_external_reconnect():
    """external dispatcher: loss, a rejected attempt, then a connection that the server closes (C15, external-dispatcher half)."""
    iv = 0.2
    r = run_app_external([[("send", F(1, 1, b"a")), ("sleep", 0.05), ("eof",)], [("reject", 503)],
                          [("send", F(1, 1, b"b")), ("sleep", 0.1), ("send", CLOSE_BYE), ("until_close", 0.5)]], reconnect=iv)
    tr = r["trace"]
    nm = [t[0] for t in tr]
    p = _expect("external-reconnect", nm.count("on_close"), 1, "on_close calls")
    p += _expect("external-reconnect", nm[-1:] , ["on_close"], "last callback")
    p += _expect("external-reconnect", [t for t in tr if t[0] in ("on_open", "on_reconnect", "on_message")],
                 [("on_open",), ("on_message", "a"), ("on_reconnect",), ("on_message", "b")], "open / reconnect / message callbacks")
    p += _expect("external-reconnect", len(r["peer"].accept_times), 3, "connection attempts (lost, rejected, accepted; none after the server's close)")
    at = r["peer"].accept_times
    for a_, b_ in zip(at, at[1:]):
        if b_ - a_ < iv * 0.9:
            p.append(f"external-reconnect: attempt only {b_ - a_:.3f}s after the previous one (interval {iv})")
    return p


def sc_external_close_in_on_error():
    """external dispatcher: the application calls close() inside on_error: the run ends, no further connection attempt."""
    r = run_app_external([[("reject", 503)], [("sleep", 0.3)], [("sleep", 0.3)]], reconnect=0.2, behaviours={"on_error": "close"}, timeout=3.0)
    nm = [t[0] for t in r["trace"]]
    p = _expect("external-close-in-on_error", len(r["peer"].accept_times), 1, "connection attempts (none after close())")
    p += _expect("external-close-in-on_error", nm.count("on_close"), 1, "on_close calls")
    if "on_open" in nm or "on_reconnect" in nm:
        p.append(f"external-close-in-on_error: connected again after close(): {nm}")
    return p


def sc_close_no_reconnect():
    r = run_app([[("send", CLOSE_BYE), ("until_close", 0.5)]], reconnect=0.1, timeout=3.0)
    time.sleep(0.3)
    return _expect("close-no-reconnect", len(r["peer"].accept_times), 1, "connection attempts after a server close frame") + \
        _expect("close-no-reconnect", strip(r["trace"]), [("on_open",), ("on_close", 1000, "bye")], "callback trace")


def sc_ping():
    r = run_app([[("sleep", 0.5), ("send", CLOSE_BYE), ("until_close", 0.5)]], ping_interval=0.1, ping_payload="hb", timeout=4.0)
    rec = r["peer"].received[0] if r["peer"].received else []
    pings = [(t, f) for t, f in rec if f["opcode"] == 9]
    p = []
    if len(pings) < 2:
        p.append(f"ping: only {len(pings)} pings in 0.5 s at interval 0.1")
    if any(f["payload"] != b"hb" for _, f in pings):
        p.append("ping: payload differs from the configured one")
    for (a, _), (b, _) in zip(pings, pings[1:]):
        if b - a < 0.08:
            p.append(f"ping: two pings {b - a:.3f}s apart")
    p += _expect("ping", r["results"], [False], "return value")
    return p


def sc_ping_timeout():
    r = run_app([[("sleep", 3.0)]], ping_interval=0.5, ping_timeout=0.2, timeout=5.0)
    tr = strip(r["trace"])
    p = []
    if ("on_error", "WebSocketTimeoutException") not in tr:
        p.append(f"ping-timeout: silent peer not reported: {tr}")
    return p


def sc_detect_window(interval=0.24, timeout=0.2):
    """silent peer: the ping/pong timeout must be reported no later than 2*timeout after the first unanswered ping reached the peer."""
    r = run_app([[("sleep", 4.0)]], ping_interval=interval, ping_timeout=timeout, timeout=6.0)
    rec = r["peer"].received[0] if r["peer"].received else []
    pings = [t for t, f in rec if f["opcode"] == 9]
    errs = [x for x in r["trace"] if x[0] == "on_error" and x[1] == "WebSocketTimeoutException"]
    if not pings:
        return ["detect-window: no ping reached the peer"]
    if not errs:
        return [f"detect-window: silent peer never reported (interval {interval}, timeout {timeout})"]
    t_err = [y[1] for y in errs[0] if isinstance(y, tuple) and y[:1] == ("t",)][0]
    late = t_err - pings[0]
    if late > 2 * timeout + 0.12:
        return [f"detect-window: timeout reported {late:.2f}s = {late / timeout:.1f} timeouts after the first unanswered ping "
                f"(interval {interval}, timeout {timeout}; bound 2 timeouts)"]
    return []


SCENARIOS = dict(detect_window=sc_detect_window, traffic=sc_traffic, eof=sc_eof, callback_raises=sc_callback_raises, close_in_open=sc_close_in_open,
                 close_in_message=sc_close_in_message, protocol_error=sc_protocol_error, second_run=sc_second_run,
                 close_empty_body=sc_close_empty_body, reconnect=sc_reconnect, close_no_reconnect=sc_close_no_reconnect, ping=sc_ping,
                 ping_timeout=sc_ping_timeout, interrupt_in_callback=sc_interrupt_in_callback,
                 interrupt_in_on_close=sc_interrupt_in_on_close,
                 close_during_reconnect_wait=sc_close_during_reconnect_wait, external_reconnect=sc_external_reconnect,
                 external_close_in_on_error=sc_external_close_in_on_error)
BY_PROPERTY = {
    "C13": ["traffic", "callback_raises", "close_in_message"],
    "C14": ["traffic", "eof", "close_in_open", "close_in_message", "protocol_error", "second_run", "close_empty_body", "callback_raises",
            "interrupt_in_callback", "interrupt_in_on_close"],
    "C15": ["reconnect", "close_no_reconnect", "eof", "close_during_reconnect_wait", "external_reconnect", "external_close_in_on_error"],
    "C16": ["ping", "ping_timeout"],
}


def run_property(pid, which=None):
    out = []
    for n in (which or BY_PROPERTY[pid]):
        probs = []
        for patience in (1.0, 3.0, 8.0):
            PATIENCE[0] = patience
            try:
                probs = SCENARIOS[n]()
            except Exception as ex:  # noqa
                probs = [f"{n}: harness error {type(ex).__name__}: {ex}"]
            finally:
                PATIENCE[0] = 1.0
            if not probs:
                break
        out.append((n, probs))
    return out


def bounded(pid):
    def run(tier, seed):
        t0 = time.time()
        res = run_property(pid)
        viol = [dict(check="run_forever composition (setSock/run_forever bodies) scenario " + n, witness_id=f"{pid}:{n}", witness=dict(scenario=n), detail=p)
                for n, p in res if p]
        return dict(name="scenario harness: real WebSocketApp.run_forever against a scripted loopback server",
                    bound=f"{len(res)} scripted scenarios ({', '.join(n for n, _ in res)}); one connection history each", labelled="bounded",
                    scenarios=len(res), failed=len(viol), wall_s=round(time.time() - t0, 2), violations=viol)
    return run


def replay_witness(w):
    for patience in (1.0, 3.0, 8.0):
        PATIENCE[0] = patience
        try:
            if not SCENARIOS[w["scenario"]](**w.get("args", {})):
                return False
        finally:
            PATIENCE[0] = 1.0
    return True


if __name__ == "__main__":
    import sys
    for pid in (sys.argv[1:] or ["C13", "C14", "C15", "C16"]):
        for n, p in run_property(pid):
            print(pid, n, "OK" if not p else p)
