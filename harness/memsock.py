"""In-memory transport: scripted reads (chunks, timeouts, EOF), recording of writes and request sizes."""
import socket


class HarnessHang(BaseException):
    """raised by the scripted transport when the code under test keeps asking for data after the end of the stream was
    signalled many times: an endless read loop (C17: never hangs).  A BaseException so that no library handler swallows it."""


EOF_LIMIT = 2000


class MemSock:
    def __init__(self, chunks, short_writes=None, eof=True):
        """chunks: list of bytes | 'timeout' | 'eof'; after the script: EOF (b'') if eof else timeout."""
        self.script = list(chunks)
        self.pending = b""
        self.sent = []
        self.requests = []
        self.short = list(short_writes or [])
        self.closed = False
        self.eof = eof
        self.timeout = None
        self.events = []

    def recv(self, n):
        self.requests.append(n)
        self.events.append(("recv", n))
        if self.closed:
            raise OSError(9, "Bad file descriptor")
        while not self.pending:
            if not self.script:
                if self.eof:
                    self.eofs = getattr(self, "eofs", 0) + 1
                    if self.eofs > EOF_LIMIT:
                        raise HarnessHang(f"recv() called {self.eofs} times after end of stream")
                    return b""
                raise socket.timeout("timed out")
            x = self.script.pop(0)
            if x == "timeout":
                raise socket.timeout("timed out")
            if x == "eof":
                return b""
            self.pending = x
        out, self.pending = self.pending[:n], self.pending[n:]
        return out

    def send(self, data):
        if self.closed:
            raise OSError(9, "Bad file descriptor")
        n = len(data)
        if self.short:
            k = self.short.pop(0)
            if k == "error":
                raise OSError(32, "Broken pipe")
            n = max(0, min(n, k))
        self.sent.append(bytes(data[:n]))
        self.events.append(("send", bytes(data[:n])))
        return n

    def gettimeout(self):
        return self.timeout

    def settimeout(self, t):
        self.timeout = t

    def close(self):
        self.closed = True
        self.events.append(("close",))

    def shutdown(self, how):
        self.events.append(("shutdown",))

    def fileno(self):
        return -1

    def wire(self):
        return b"".join(self.sent)
