import re
from . import streamdiff


def _hint(res):
    m = res.get("model") or {}
    h = {}
    for k, v in m.items():
        for name in ("opcode", "fin"):
            if re.search(r"\b" + name + r"\b", k) and str(v).lstrip("-").isdigit():
                h[name] = int(v) % (16 if name == "opcode" else 2)
    return h


def concretise(res, tier, seed):
    r = streamdiff.search(seed, 1500 if tier == "quick" else 20000, _hint(res))
    if not r.get("found"):
        r = streamdiff.search(seed + 1, 1500 if tier == "quick" else 20000, None)
    if not r.get("found"):
        # the handshake boundary: frames delivered in the same segment as the handshake response
        from . import native_hs
        r2 = native_hs.search(seed)
        if r2.get("found"):
            r2["witness"]["harness"] = "hs"
            return r2
    return r


def replay_witness(w):
    if w.get("harness") == "hs":
        from . import native_hs
        return native_hs.replay_witness(w)
    return streamdiff.replay_witness(w)
