import re
from . import streamdiff


def _hint(res):
    m = res.get("model") or {}
    h = {}
    for k, v in m.items():
        for name in ("opcode", "fin"):
            if re.search(r"\b" + name + r"\b", k) and str(v).lstrip("-").isdigit():
                h[name] = int(v) % (16 if name == "opcode" else 2)
    return h


def concretise(res, tier, seed):
    r = streamdiff.search(seed, 1500 if tier == "quick" else 20000, _hint(res))
    if not r.get("found"):
        r = streamdiff.search(seed + 1, 1500 if tier == "quick" else 20000, None)
    return r


def replay_witness(w):
    return streamdiff.replay_witness(w)
