"""Native history search for C08: call/event histories on a real WebSocket over the in-memory transport,
checked against the closing state machine of the property statement."""
import random

from . import specexec as S
from .memsock import MemSock, HarnessHang

KEY = b"\x01\x02\x03\x04"
OPS = ["send", "recv", "ping", "close", "close_bad", "send_close", "send_close_bad", "shutdown", "recv", "close"]
EVENTS = ["text", "ping", "close", "close2", "eof", "timeout", "bin"]


def frames_for(ev):
    if ev == "text":
        return S.rfc_encode(1, 1, b"hi")
    if ev == "bin":
        return S.rfc_encode(1, 2, b"\x00\x01")
    if ev == "ping":
        return S.rfc_encode(1, 9, b"p")
    if ev == "close":
        return S.rfc_encode(1, 8, (1000).to_bytes(2, "big") + b"bye")
    if ev == "close2":
        return S.rfc_encode(1, 8, b"") + S.rfc_encode(1, 8, (1001).to_bytes(2, "big"))
    return None


class FakeRel:
    """stand-in for an external (rel-like) event loop as WrappedDispatcher uses it: buffwrite() writes at once"""

    def __init__(self):
        self.queued = []

    def signal(self, *a):
        pass

    def abort(self, *a):
        pass

    def buffwrite(self, sock, data, send, on_error):
        self.queued.append((sock is not None, len(data)))
        if sock is not None:
            while data:
                n = send(sock, data)
                data = data[n:]


def run_history(hist, dispatcher=None):
    """hist: list of (op, event); dispatcher: None | 'builtin' | 'external' - the object WebSocketApp would install on the
    connection.  Returns a list of problems (empty = the property held on this history)."""
    import websocket
    import websocket._dispatcher as dm
    rel = FakeRel()
    dobj = None if dispatcher is None else dm.Dispatcher(None, 1) if dispatcher == "builtin" else dm.WrappedDispatcher(None, None, rel, lambda *a: None)
    ws = websocket.WebSocket(dispatcher=dobj)
    sock = MemSock([], eof=False)
    ws.sock = sock
    ws.connected = True
    ws.set_mask_key(lambda n: KEY)
    problems = []
    explicit_close_frames = 0
    released = False
    for i, (op, ev) in enumerate(hist):
        fr = frames_for(ev)
        if fr is not None:
            sock.script.append(fr)
        elif ev == "eof":
            sock.script.append("eof")
        elif ev == "timeout":
            sock.script.append("timeout")
        before_events = len(sock.events)
        before_queued = len(rel.queued)
        before_wire = len(sock.wire())
        was_released = ws.sock is None
        exc = None
        try:
            if op == "send":
                ws.send("x")
            elif op == "ping":
                ws.ping(b"q")
            elif op == "recv":
                ws.recv()
            elif op == "close":
                ws.close(status=1000 + i, reason=b"r", timeout=0.01)
            elif op == "close_bad":
                ws.close(status=70000)
            elif op == "send_close":
                ws.send_close(1001, b"x")
                explicit_close_frames += 1
            elif op == "send_close_bad":
                ws.send_close(-1)
            elif op == "shutdown":
                ws.shutdown()
        except HarnessHang as ex:
            problems.append(f"step {i} {op}: endless read loop after the end of the stream ({ex})")
            break
        except Exception as ex:  # noqa
            exc = ex
        name = type(exc).__name__ if exc else None
        if was_released:
            if op in ("send", "ping", "recv", "send_close") and name != "WebSocketConnectionClosedException":
                problems.append(f"step {i} {op}: after release expected WebSocketConnectionClosedException, got {name}")
            if len(sock.events) != before_events:
                problems.append(f"step {i} {op}: transport touched after release: {sock.events[before_events:]}")
            if len(rel.queued) != before_queued:
                problems.append(f"step {i} {op}: data handed to the external dispatcher after release: {rel.queued[before_queued:]}")
        if op in ("close_bad", "send_close_bad"):
            if op == "send_close_bad" and not was_released and name != "ValueError":
                problems.append(f"step {i} {op}: expected ValueError, got {name}")
            if op == "close_bad" and ws.connected and name != "ValueError":
                problems.append(f"step {i} {op}: expected ValueError, got {name}")
            if name == "ValueError" and len(sock.wire()) != before_wire:
                problems.append(f"step {i} {op}: bytes written before the range check")
        if op in ("close", "shutdown") and exc is None:
            if ws.sock is not None or ws.connected or not sock.closed:
                problems.append(f"step {i} {op}: transport not released (sock={ws.sock!r}, connected={ws.connected}, closed={sock.closed})")
        if op == "close" and exc is not None and not isinstance(exc, ValueError):
            problems.append(f"step {i} close raised {name}")
        if name in ("IndexError", "KeyError", "AttributeError", "TypeError", "struct.error", "error"):
            problems.append(f"step {i} {op}: internal error {name}: {exc}")
    # close frames on the wire
    wire = sock.wire()
    pos, nclose = 0, 0
    while True:
        f = S.rfc_decode(wire, pos)
        if f is None:
            break
        pos = f["next"]
        if f["opcode"] == 8:
            nclose += 1
    if pos != len(wire):
        pass  # a partial frame can only come from an injected write failure (none here)
    if nclose - explicit_close_frames > 1:
        problems.append(f"{nclose - explicit_close_frames} close frames written on the client's own initiative")
    return problems


def check_failed_reply():
    """the server's close frame is delivered even when the reply to it cannot be written (the peer dropped the connection right
    after sending it): the receive call returns the close frame, it does not raise the transport's error (C14 / C15: a close frame
    from the server ends the connection as such)."""
    import websocket
    probs = []
    for short in (["error"], [3, "error"]):
        ws = websocket.WebSocket()
        ws.sock = MemSock([frames_for("close")], short_writes=list(short), eof=False)
        ws.connected = True
        ws.set_mask_key(lambda n: KEY)
        try:
            op, fr = ws.recv_data_frame(True)
        except Exception as ex:  # noqa
            probs.append(f"close frame followed by a refused reply (writes {short}): recv_data_frame raised {type(ex).__name__} instead of returning the close frame")
            continue
        if op != 8 or fr.data[:2] != (1000).to_bytes(2, "big") or ws.connected:
            probs.append(f"close frame followed by a refused reply: returned opcode {op}, connected={ws.connected}")
    return probs


def search(seed, budget, max_len=5):
    p = check_failed_reply()
    if p:
        return dict(found=True, witness=dict(history=[], kind="failed-reply"), detail=p, tried=1)
    rnd = random.Random(seed)
    for t in range(budget):
        n = rnd.randint(1, max_len)
        hist = [(rnd.choice(OPS), rnd.choice(EVENTS + [None, None])) for _ in range(n)]
        disp = rnd.choice([None, None, "builtin", "external"])
        p = run_history(hist, disp)
        if p:
            # shrink: drop steps while it still fails
            h = list(hist)
            changed = True
            while changed:
                changed = False
                for j in range(len(h)):
                    h2 = h[:j] + h[j + 1:]
                    if h2 and run_history(h2, disp):
                        h, changed = h2, True
                        break
            return dict(found=True, witness=dict(history=h, dispatcher=disp), detail=run_history(h, disp), tried=t + 1)
    return dict(found=False, tried=budget)


def concretise(res, tier, seed):
    return search(seed, 1500 if tier == "quick" else 20000)


def replay_witness(w):
    if w.get("kind") == "failed-reply":
        return bool(check_failed_reply())
    return bool(run_history([tuple(x) for x in w["history"]], w.get("dispatcher")))


if __name__ == "__main__":
    import sys
    print(search(int(sys.argv[1]) if len(sys.argv) > 1 else 0, 3000))
