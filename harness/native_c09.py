from . import native_hs, streamdiff


def concretise(res, tier, seed):
    r = native_hs.search(seed)
    if r.get("found"):
        r["witness"]["kind"] = "handshake"
        return r
    r = streamdiff.search(seed, 1500 if tier == "quick" else 20000, None)
    if r.get("found"):
        r["witness"]["kind"] = "frames"
    return r


def replay_witness(w):
    if w.get("kind") == "frames" or "stream" in w:
        return streamdiff.replay_witness(w)
    return native_hs.replay_witness(w)
