"""Bounded check of the opening request (C10): the request written by the real handshake for a grid of URLs x options,
checked line by line against the statement; (thorough) additionally parsed by the `websockets` server implementation."""
import base64
import itertools
import json
import os
import subprocess
import sys

from .native_hs import HsSock, ok_response

URLS = [("ws://example.com/", "example.com", "/"), ("ws://example.com", "example.com", "/"), ("wss://example.com:8443/a/b?x=1&y=2", "example.com:8443", "/a/b?x=1&y=2"),
        ("ws://10.0.0.1:80/p", "10.0.0.1", "/p"), ("wss://[2001:db8::1]/chat", "[2001:db8::1]", "/chat"), ("ws://[::1]:9000/?q", "[::1]:9000", "/?q"),
        ("wss://Example.COM:443/", "example.com", "/")]
OPTS = [{}, {"host": "virtual.example"}, {"origin": "https://o.example"}, {"suppress_origin": True}, {"subprotocols": ["chat", "v2"]},
        {"cookie": "c=1"}, {"header": ["X-A: 1", "X-B: 2"]}, {"header": {"X-A": "1", "X-None": None}}, {"connection": "keep-alive, Upgrade"},
        {"host": "h.example", "origin": "http://o", "subprotocols": ["s"], "cookie": "k=v", "header": {"X-Z": "z"}, "connection": "Upgrade"}]


def request_for(url, opts):
    import websocket
    ws = websocket.WebSocket()
    sock = HsSock(lambda k, i: ok_response(k, extra=(b"Sec-WebSocket-Protocol: " + opts["subprotocols"][0].encode() + b"\r\n") if opts.get("subprotocols") else b""))
    ws.connect(url, socket=sock, **opts)
    return sock.last_request, len([x for x in sock.events if x[0] == "send"]), [x[0] for x in sock.events]


def check(url, hostport, target, opts):
    req, sends, events = request_for(url, opts)
    p = []
    if not req.endswith(b"\r\n\r\n"):
        p.append("request does not end with an empty line")
    lines = req[:-4].decode("utf-8").split("\r\n")
    if lines[0] != f"GET {target} HTTP/1.1":
        p.append(f"request line {lines[0]!r}, expected target {target!r}")
    hd = {}
    for l in lines[1:]:
        if ": " not in l or l.startswith(":"):
            p.append(f"not a header line: {l!r}")
            continue
        k, v = l.split(": ", 1)
        hd.setdefault(k.lower(), []).append(v)
    want_host = opts.get("host") or hostport
    if hd.get("host") != [want_host]:
        p.append(f"Host {hd.get('host')}, expected {want_host!r}")
    if hd.get("upgrade") != ["websocket"]:
        p.append(f"Upgrade {hd.get('upgrade')}")
    if hd.get("connection") != [opts.get("connection") or "Upgrade"]:
        p.append(f"Connection {hd.get('connection')}")
    if hd.get("sec-websocket-version") != ["13"]:
        p.append("Sec-WebSocket-Version")
    keys = hd.get("sec-websocket-key", [])
    try:
        if len(keys) != 1 or len(base64.b64decode(keys[0], validate=True)) != 16:
            p.append(f"Sec-WebSocket-Key {keys}")
    except Exception:
        p.append(f"Sec-WebSocket-Key not base64: {keys}")
    scheme = "https" if url.lower().startswith("wss") else "http"
    if opts.get("suppress_origin"):
        if "origin" in hd:
            p.append("Origin present although suppressed")
    elif hd.get("origin") != [opts.get("origin") or f"{scheme}://{hostport}"]:
        p.append(f"Origin {hd.get('origin')}")
    if opts.get("subprotocols") and hd.get("sec-websocket-protocol") != [",".join(opts["subprotocols"])]:
        p.append(f"Sec-WebSocket-Protocol {hd.get('sec-websocket-protocol')}")
    if opts.get("cookie") and hd.get("cookie") != [opts["cookie"]]:
        p.append(f"Cookie {hd.get('cookie')}")
    h = opts.get("header")
    if isinstance(h, dict):
        for k, v in h.items():
            if v is None and k.lower() in hd:
                p.append(f"header {k} with value None was sent")
            if v is not None and hd.get(k.lower()) != [v]:
                p.append(f"custom header {k}")
    elif isinstance(h, list):
        for l in h:
            if l not in lines:
                p.append(f"custom header line {l!r} missing")
    if sends != 1 or events.index("send") > (events.index("recv") if "recv" in events else 10 ** 9):
        p.append(f"{sends} writes / order {events[:4]}")
    return p, req, keys


def search(tier="quick", seed=0):
    tried, seen_keys = 0, set()
    for (url, hostport, target), opts in itertools.product(URLS, OPTS):
        tried += 1
        try:
            p, req, keys = check(url, hostport, target, opts)
        except Exception as ex:  # noqa
            p, req, keys = [f"{type(ex).__name__}: {ex}"], b"", []
        for k in keys:
            if k in seen_keys:
                p.append("Sec-WebSocket-Key repeated across connections")
            seen_keys.add(k)
        if p:
            return dict(found=True, witness=dict(url=url, hostport=hostport, target=target, opts=opts), detail=p, tried=tried)
    return dict(found=False, tried=tried)


def server_accepts(tier):
    """(thorough) feed the requests to the sans-I/O server of the `websockets` package in /venv."""
    reqs = []
    for (url, hostport, target), opts in itertools.product(URLS, OPTS):
        try:
            reqs.append(base64.b64encode(request_for(url, opts)[0]).decode())
        except Exception:
            pass
    code = ("import sys,json,base64\nfrom websockets.server import ServerProtocol\nbad=[]\n"
            "for i,r in enumerate(json.load(sys.stdin)):\n"
            "    p=ServerProtocol(); p.receive_data(base64.b64decode(r)); ev=p.events_received()\n"
            "    ok=False\n"
            "    if ev:\n"
            "        resp=p.accept(ev[0]); ok=(resp.status_code==101)\n"
            "    if not ok: bad.append(i)\nprint(json.dumps(bad))\n")
    try:
        out = subprocess.run(["/venv/bin/python", "-c", code], input=json.dumps(reqs), capture_output=True, text=True, timeout=120)
        bad = json.loads(out.stdout.strip().splitlines()[-1])
        return dict(requests=len(reqs), rejected=bad)
    except Exception as ex:  # noqa
        return dict(requests=len(reqs), skipped=f"{type(ex).__name__}: {ex}")


def bounded(tier, seed):
    import time
    t0 = time.time()
    r = search(tier, seed)
    viol = [dict(check="request for URL/option grid", witness_id="C10:" + json.dumps(r["witness"], sort_keys=True)[:90], witness=r["witness"], detail=r["detail"])] if r.get("found") else []
    srv = server_accepts(tier)
    if srv.get("rejected"):
        viol.append(dict(check="independent server (websockets) rejects the request", witness_id=f"C10:server:{srv['rejected'][:3]}", witness=dict(index=srv["rejected"][0]), detail=srv))
    return dict(name="request grid: real handshake request for URLs x options, checked line by line and parsed by the websockets 17 server protocol",
                bound=f"{len(URLS)} URLs x {len(OPTS)} option sets", labelled="bounded", requests=r["tried"], independent_server=srv,
                wall_s=round(time.time() - t0, 2), violations=viol)


def concretise(res, tier, seed):
    return search(tier, seed)


def replay_witness(w):
    if "url" not in w:
        return bool(server_accepts("quick").get("rejected"))
    return bool(check(w["url"], w["hostport"], w["target"], w["opts"])[0])


if __name__ == "__main__":
    print(search()); print(server_accepts("thorough"))
