"""Bounded probe of the TLS configuration (C11): the real _ssl_socket / connect with SSLContext.wrap_socket intercepted, for a grid
of sslopt combinations and the CA-bundle variable; checks verify_mode / check_hostname / server_hostname of the context used.
That OpenSSL then rejects untrusted chains / wrong names is the assumed contract of `ssl` (not exercised here)."""
import itertools
import os
import ssl
import tempfile


def probe(sslopt, hostname="origin.example", bundle=None):
    import websocket._http as h
    seen = {}
    real = ssl.SSLContext.wrap_socket

    def fake(self, sock, **kw):
        seen.update(ctx=self, verify_mode=self.verify_mode, check_hostname=self.check_hostname, kw=kw, sock=sock)
        return ("tls", sock)
    saved = os.environ.pop("WEBSOCKET_CLIENT_CA_BUNDLE", None)
    if bundle:
        os.environ["WEBSOCKET_CLIENT_CA_BUNDLE"] = bundle
    ssl.SSLContext.wrap_socket = fake
    try:
        try:
            r = h._ssl_socket("plain", dict(sslopt), hostname)
        except Exception as ex:  # noqa
            return dict(error=type(ex).__name__ + ": " + str(ex))
    finally:
        ssl.SSLContext.wrap_socket = real
        os.environ.pop("WEBSOCKET_CLIENT_CA_BUNDLE", None)
        if saved is not None:
            os.environ["WEBSOCKET_CLIENT_CA_BUNDLE"] = saved
    seen["result"] = r
    return seen


def check(sslopt):
    s = probe(sslopt)
    cr = sslopt.get("cert_reqs", ssl.CERT_REQUIRED)
    ch = sslopt.get("check_hostname", True)
    if "error" in s:
        # the only legitimate refusal: an explicit check_hostname=True together with CERT_NONE (ssl forbids it)
        if cr == ssl.CERT_NONE and sslopt.get("check_hostname") is True:
            return []
        return [f"sslopt {sslopt}: {s['error']}"]
    p = []
    if s["verify_mode"] != cr:
        p.append(f"sslopt {sslopt}: verify_mode {s['verify_mode']!r}, expected {cr!r}")
    want_ch = False if cr == ssl.CERT_NONE else ch
    if s["check_hostname"] != want_ch:
        p.append(f"sslopt {sslopt}: check_hostname {s['check_hostname']}, expected {want_ch}")
    want_sni = sslopt.get("server_hostname") or "origin.example"
    if s["kw"].get("server_hostname") != want_sni:
        p.append(f"sslopt {sslopt}: server_hostname {s['kw'].get('server_hostname')!r}, expected {want_sni!r}")
    if s["sock"] != "plain":
        p.append("a different socket was wrapped")
    return p


def grid():
    for cr, ch, sh, ci, ver in itertools.product([None, ssl.CERT_NONE, ssl.CERT_OPTIONAL, ssl.CERT_REQUIRED], [None, True, False], [None, "sni.example"],
                                                 [None, "DEFAULT"], [None, int(ssl.PROTOCOL_TLS_CLIENT), int(ssl.PROTOCOL_TLS)]):
        o = {}
        if ver is not None:
            o["ssl_version"] = ver  # only PROTOCOL_TLS_CLIENT contexts start with verification on
        if cr is not None:
            o["cert_reqs"] = cr
        if ch is not None:
            o["check_hostname"] = ch
        if sh:
            o["server_hostname"] = sh
        if ci:
            o["ciphers"] = ci
        yield o


def check_context_untouched():
    ctx = ssl.SSLContext(ssl.PROTOCOL_TLS_CLIENT)
    before = (ctx.verify_mode, ctx.check_hostname)
    s = probe({"context": ctx, "cert_reqs": ssl.CERT_NONE, "check_hostname": False})
    if "error" in s:
        return [s["error"]]
    if s["ctx"] is not ctx or (ctx.verify_mode, ctx.check_hostname) != before:
        return ["a caller-supplied context was replaced or modified"]
    return []


def check_ws_not_wrapped():
    import websocket._http as h
    calls = []
    real_ssl, real_open, real_gai = h._ssl_socket, h._open_socket, h._get_addrinfo_list
    h._ssl_socket = lambda s, o, n: calls.append(n) or ("tls", s)
    h._open_socket = lambda a, o, t: "plain"
    h._get_addrinfo_list = lambda hn, p, sec, px: ([1], False, None)
    try:
        from websocket._socket import sock_opt
        from websocket._http import proxy_info
        r1 = h.connect("ws://origin.example/", sock_opt(None, None), proxy_info(), None)
        r2 = h.connect("wss://origin.example/", sock_opt(None, None), proxy_info(), None)
    finally:
        h._ssl_socket, h._open_socket, h._get_addrinfo_list = real_ssl, real_open, real_gai
    p = []
    if r1[0] != "plain":
        p.append("ws:// target was wrapped in TLS")
    if r2[0] != ("tls", "plain") or calls != ["origin.example"]:
        p.append(f"wss:// target not wrapped with the origin's name: {r2[0]} {calls}")
    return p


def search(tier="quick", seed=0):
    n = 0
    for o in grid():
        n += 1
        p = check(o)
        if p:
            return dict(found=True, witness=dict(kind="sslopt", sslopt={k: (int(v) if k in ("cert_reqs", "ssl_version") else v) for k, v in o.items()}), detail=p, tried=n)
    for kind, fn in (("context", check_context_untouched), ("wrap", check_ws_not_wrapped)):
        n += 1
        p = fn()
        if p:
            return dict(found=True, witness=dict(kind=kind), detail=p, tried=n)
    return dict(found=False, tried=n)


def bounded(tier, seed):
    import time
    t0 = time.time()
    r = search(tier, seed)
    viol = [dict(check="TLS configuration grid", witness_id="C11:" + repr(r["witness"])[:90], witness=r["witness"], detail=r["detail"])] if r.get("found") else []
    return dict(name="TLS configuration probe: real _ssl_socket / connect with wrap_socket intercepted",
                bound="cert_reqs x check_hostname x server_hostname x ciphers grid x ssl_version grid (144 combinations), caller context, ws vs wss", labelled="bounded",
                cases=r["tried"], wall_s=round(time.time() - t0, 2), violations=viol,
                note="rejection of untrusted / mismatching certificates by OpenSSL is NOT exercised (assumed contract of ssl)")


def concretise(res, tier, seed):
    return search(tier, seed)


def replay_witness(w):
    if w.get("kind") == "sslopt":
        o = dict(w["sslopt"])
        if "cert_reqs" in o:
            o["cert_reqs"] = ssl.VerifyMode(o["cert_reqs"])
        if "ssl_version" in o:
            o["ssl_version"] = ssl._SSLMethod(o["ssl_version"])
        return bool(check(o))
    return bool({"context": check_context_untouched, "wrap": check_ws_not_wrapped}[w["kind"]]())


if __name__ == "__main__":
    print(search())
