from . import native_send


def concretise(res, tier, seed):
    return native_send.search(seed, 400 if tier == "quick" else 3000)


def replay_witness(w):
    return native_send.replay_witness(w)
