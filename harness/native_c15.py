from . import appsim

PID = "C15"


def concretise(res, tier, seed):
    for n, probs in appsim.run_property(PID):
        if probs:
            return dict(found=True, witness=dict(scenario=n), detail=probs)
    return dict(found=False, note="no scripted scenario fails")


def replay_witness(w):
    return appsim.replay_witness(w)
