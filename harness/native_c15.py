from . import appsim
from . import native_c08

PID = "C15"


def concretise(res, tier, seed):
    # a close frame from the server must reach the application as such even when the reply to it cannot be written
    p = native_c08.check_failed_reply()
    if p:
        return dict(found=True, witness=dict(kind="failed-reply"), detail=p)
    for n, probs in appsim.run_property(PID):
        if probs:
            return dict(found=True, witness=dict(scenario=n), detail=probs)
    return dict(found=False, note="no scripted scenario fails")


def replay_witness(w):
    if w.get("kind") == "failed-reply":
        return bool(native_c08.check_failed_reply())
    return appsim.replay_witness(w)
