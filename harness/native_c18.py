"""Bounded differential for C18: parse_url on a URL grid against an independent RFC 3986 splitter; _open_socket against a
simulated socket module for address lists with every refused / unreachable / accepting / other-error pattern."""
import errno
import itertools


def ref_parse(url):
    """independent reading of the statement; returns tuple or 'ValueError'."""
    if ":" not in url:
        return "ValueError"
    scheme, rest = url.split(":", 1)
    if not rest.startswith("//"):
        return "ValueError"
    rest = rest[2:]
    for i, ch in enumerate(rest):
        if ch in "/?#":
            auth, tail = rest[:i], rest[i:]
            break
    else:
        auth, tail = rest, ""
    if "@" in auth:
        auth = auth.rsplit("@", 1)[1]
    port = None
    if auth.startswith("["):
        if "]" not in auth:
            return "ValueError"
        host, after = auth[1:].split("]", 1)
        if after.startswith(":"):
            port = after[1:]
        elif after:
            return "ValueError"
    elif ":" in auth:
        host, port = auth.rsplit(":", 1)
    else:
        host = auth
    if not host:
        return "ValueError"
    p = 0
    if port not in (None, ""):
        if not port.isdigit() or not (0 <= int(port) <= 65535):
            return "ValueError"
        p = int(port)
    if scheme not in ("ws", "wss"):
        return "ValueError"
    if not p:
        p = 80 if scheme == "ws" else 443
    path, query = tail, ""
    if "#" in path:
        path = path.split("#", 1)[0]
    if "?" in path:
        path, query = path.split("?", 1)
    res = (path or "/") + ("?" + query if query else "")
    return (host.lower(), p, res, scheme == "wss")


def url_grid():
    schemes = ["ws", "wss", "http", "WS", ""]
    hosts = ["example.com", "EXAMPLE.com", "10.1.2.3", "[2001:db8::1]", "user:pw@example.com", ""]
    ports = ["", ":", ":0", ":1", ":80", ":443", ":8080", ":65535", ":65536", ":abc"]
    paths = ["", "/", "/a/b", "/a%20b", "/a;b", "/a;b/c", "/chat;jsessionid=42", "/a;"]
    queries = ["", "?x=1", "?x=1&y=2", "?"]
    for s, h, p, pa, q in itertools.product(schemes, hosts, ports, paths, queries):
        yield f"{s}://{h}{p}{pa}{q}" if s else f"//{h}{p}{pa}{q}"
    for u in ["ws:/example.com/", "ws:example.com", "example.com", "ws//example.com", "", "wss://", "ws://:80/"]:
        yield u


def check_url(url):
    from websocket._url import parse_url
    try:
        got = parse_url(url)
    except ValueError:
        got = "ValueError"
    except Exception as ex:  # noqa
        got = f"{type(ex).__name__}"
    want = ref_parse(url)
    if got != want:
        return dict(url=url, got=repr(got), expected=repr(want))
    return None


class FakeSock:
    log = []

    def __init__(self, fam, typ, proto, plan):
        self.fam, self.typ, self.proto, self.plan = fam, typ, proto, plan
        self.opts, self.timeout, self.closed, self.connected = [], "unset", False, None
        FakeSock.log.append(self)

    def settimeout(self, t):
        self.timeout = t

    def setsockopt(self, *o):
        self.opts.append(o)

    def connect(self, addr):
        self.connected = addr
        what = self.plan[addr[1]]
        if what == "ok":
            return
        raise OSError({"refused": errno.ECONNREFUSED, "unreach": errno.ENETUNREACH, "other": errno.EPERM}[what], what)

    def close(self):
        self.closed = True


def check_open_socket(pattern, sockopt=((1, 2, 3),), timeout=7):
    import websocket._http as h
    from websocket._socket import DEFAULT_SOCKET_OPTION
    FakeSock.log = []
    plan = {i: w for i, w in enumerate(pattern)}
    infos = [(2, 1, 6, "", ("10.0.0.%d" % i, i)) for i in range(len(pattern))]
    real = h.socket.socket
    h.socket.socket = lambda f, t, p: FakeSock(f, t, p, plan)
    try:
        try:
            r = h._open_socket(infos, sockopt, timeout)
            out = ("ok", r)
        except OSError as ex:
            out = ("raise", ex.errno, ex.strerror)
    finally:
        h.socket.socket = real
    probs = []
    exp_tried = []
    for i, w in enumerate(pattern):
        exp_tried.append(i)
        if w in ("ok", "other"):
            break
    tried = [s.connected[1] for s in FakeSock.log if s.connected]
    if tried != exp_tried:
        probs.append(f"addresses tried {tried}, expected {exp_tried}")
    for s in FakeSock.log:
        if s.timeout != timeout or s.opts != [tuple(o) for o in DEFAULT_SOCKET_OPTION] + [tuple(o) for o in sockopt]:
            probs.append(f"socket for address {s.connected}: timeout {s.timeout}, options {s.opts}")
    last = pattern[exp_tried[-1]]
    if last == "ok":
        if out[0] != "ok" or out[1] is not FakeSock.log[-1] or out[1].closed:
            probs.append(f"expected the accepting socket, got {out}")
    else:
        if out[0] != "raise" or out[2] != last:
            probs.append(f"expected the error of the last address tried ({last}), got {out}")
    if any(not s.closed for s in FakeSock.log[:-1]) or (last != "ok" and not FakeSock.log[-1].closed):
        probs.append("a socket that failed was left open")
    return probs


def search(tier="quick", seed=0):
    n = 0
    for u in url_grid():
        n += 1
        r = check_url(u)
        if r:
            return dict(found=True, witness=dict(kind="url", url=u), detail=r, tried=n)
    for ln in range(1, 5):
        for pat in itertools.product(["ok", "refused", "unreach", "other"], repeat=ln):
            n += 1
            p = check_open_socket(pat)
            if p:
                return dict(found=True, witness=dict(kind="addresses", pattern=list(pat)), detail=p, tried=n)
    return dict(found=False, tried=n)


def bounded(tier, seed):
    import time
    t0 = time.time()
    r = search(tier, seed)
    viol = [dict(check="URL grid / address patterns", witness_id="C18:" + repr(r["witness"])[:90], witness=r["witness"], detail=r["detail"])] if r.get("found") else []
    return dict(name="URL grammar grid against an independent RFC 3986 splitter (tests the assumed urlparse contract); address lists of length 1..4 "
                     "with every refused/unreachable/accepting/other pattern against a simulated socket module",
                bound="scheme x host form x port x path x query grid plus malformed variants; 340 address patterns", labelled="bounded",
                cases=r["tried"], exhaustive=True, wall_s=round(time.time() - t0, 2), violations=viol)


def concretise(res, tier, seed):
    return search(tier, seed)


def replay_witness(w):
    if w.get("kind") == "url":
        return check_url(w["url"]) is not None
    return bool(check_open_socket(tuple(w["pattern"])))


if __name__ == "__main__":
    print(search())
