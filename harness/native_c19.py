"""Bounded cross-check / concretiser for C19: exemption over a small label alphabet, every IPv4 prefix length, proxy selection
from options and environment, CONNECT request and status gate."""
import itertools
import os

from .native_hs import HsSock


def spec_exempt(host, entries):
    import ipaddress
    def is_ip(h):
        try:
            ipaddress.IPv4Address(h)
            return True
        except Exception:
            return False
    if "*" in entries or host in entries:
        return True
    if is_ip(host):
        for e in entries:
            if "/" in e:
                try:
                    if ipaddress.IPv4Address(host) in ipaddress.IPv4Network(e, strict=True):
                        return True
                except Exception:
                    pass
        return False
    for e in entries:
        if e.startswith("."):
            d = e.lstrip(".")
            if host == d or host.endswith("." + d):
                return True
    return False


def check_exempt(host, entries):
    from websocket._url import _is_no_proxy_host
    got = _is_no_proxy_host(host, list(entries))
    want = spec_exempt(host, entries)
    return None if got == want else dict(host=host, no_proxy=list(entries), got=got, expected=want)


def grid():
    labels = ["a", "b", "ab"]
    hosts = [".".join(p) for n in (1, 2, 3) for p in itertools.product(labels, repeat=n)]
    doms = ["." + h for h in hosts if h.count(".") <= 1] + ["..a.b", "."]
    for h in hosts:
        for d in doms:
            yield h, (d,)
        yield h, ("*",)
        yield h, (h,)
        yield h, ("b.a", ".zz")
    base = "10.20.30.40"
    import ipaddress
    for n in range(0, 33):
        net = ipaddress.IPv4Network(f"{base}/{n}", strict=False)
        yield base, (str(net),)
        other = str(ipaddress.IPv4Address((int(net.network_address) ^ (1 << (32 - n))) & 0xFFFFFFFF)) if n else None
        if other:
            yield other, (str(net),)


def check_env():
    """proxy from options / environment (http_proxy for ws, https_proxy for wss; lower-case first)."""
    from websocket._url import get_proxy_info
    probs = []
    saved = {k: os.environ.pop(k, None) for k in ("http_proxy", "HTTP_PROXY", "https_proxy", "HTTPS_PROXY", "no_proxy", "NO_PROXY")}
    try:
        tests = [({}, False, (None, 0, None)), ({"http_proxy": "http://p1:3128"}, False, ("p1", 3128, None)),
                 ({"http_proxy": "http://p1:3128"}, True, (None, 0, None)), ({"https_proxy": "http://u:pw@p2:8080"}, True, ("p2", 8080, ("u", "pw"))),
                 ({"HTTP_PROXY": "http://p3:1"}, False, ("p3", 1, None)), ({"http_proxy": "http://lo:1", "HTTP_PROXY": "http://up:2"}, False, ("lo", 1, None)),
                 ({"http_proxy": "http://p1:3128", "no_proxy": "x.y, .example.com"}, False, (None, 0, None)),
                 ({"http_proxy": "http://p1:3128", "NO_PROXY": "other"}, False, ("p1", 3128, None))]
        for env, secure, want in tests:
            for k in saved:
                os.environ.pop(k, None)
            os.environ.update(env)
            got = get_proxy_info("host.example.com", secure)
            if got != want:
                probs.append(f"env {env} secure={secure}: {got} != {want}")
        for k in saved:
            os.environ.pop(k, None)
        got = get_proxy_info("h", False, proxy_host="px", proxy_port=9, proxy_auth=("a", "b"))
        if got != ("px", 9, ("a", "b")):
            probs.append(f"option proxy: {got}")
        if get_proxy_info("h", False, proxy_host="px", proxy_port=9, no_proxy=["h"]) != (None, 0, None):
            probs.append("exempt host still proxied")
        # both no_proxy sources present: the option, when given, decides alone ("the no_proxy option (else the environment)")
        for var in ("no_proxy", "NO_PROXY"):
            for envval, opt, want in (("h", ["other"], ("px", 9, None)), ("*", ["other"], ("px", 9, None)), ("other", ["h"], (None, 0, None)),
                                      (".example.com", [".example.org"], ("px", 9, None)), ("h", [], (None, 0, None)), ("h", None, (None, 0, None))):
                for k in saved:
                    os.environ.pop(k, None)
                os.environ[var] = envval
                host = "h" if not envval.startswith(".") else "a.example.com"
                got = get_proxy_info(host, False, proxy_host="px", proxy_port=9, no_proxy=opt)
                if got != want:
                    probs.append(f"{var}={envval!r} with no_proxy option {opt!r}, host {host}: {got} != {want}")
    finally:
        for k, v in saved.items():
            os.environ.pop(k, None)
            if v is not None:
                os.environ[k] = v
    return probs


def check_tunnel():
    import base64
    import websocket
    from websocket._http import _tunnel
    probs = []
    for auth, want_auth in ((None, None), (("u", "p"), b"u:p"), (("u", None), b"u")):
        for status in (200, 407, 302, 500, 199):
            class PS(HsSock):
                pass
            s = HsSock(lambda k, i, st=status: b"HTTP/1.1 %d X\r\n\r\n" % st)
            ok = None
            try:
                r = _tunnel(s, "origin.example", 8443, auth)
                ok = r is s
            except websocket.WebSocketProxyException:
                ok = False
            except Exception as ex:  # noqa
                probs.append(f"tunnel status {status}: {type(ex).__name__}")
                continue
            if ok != (status == 200):
                probs.append(f"tunnel status {status}: proceeded={ok}")
            req = s.last_request
            exp = b"CONNECT origin.example:8443 HTTP/1.1\r\nHost: origin.example:8443\r\n"
            if want_auth:
                exp += b"Proxy-Authorization: Basic " + base64.b64encode(want_auth) + b"\r\n"
            exp += b"\r\n"
            if req != exp:
                probs.append(f"CONNECT request {req!r} != {exp!r}")
    return probs


def check_options():
    """options -> proxy decision, end to end through proxy_info(**options) and _get_addrinfo_list (the resolver is replaced by a
    recorder): which (host, port) is dialled and whether a CONNECT tunnel is requested."""
    import websocket._http as h
    probs = []
    saved = {k: os.environ.pop(k, None) for k in ("http_proxy", "HTTP_PROXY", "https_proxy", "HTTPS_PROXY", "no_proxy", "NO_PROXY")}
    real = h.socket.getaddrinfo
    asked = []
    h.socket.getaddrinfo = lambda host, port, *a, **k: (asked.append((host, port)), [(2, 1, 6, "", ("10.9.9.9", port))])[1]
    try:
        T = ("target.example", 8080)
        P = ("px", 3128)
        cases = [  # (options, environment, secure, expected dial, tunnel)
            (dict(http_proxy_host="px", http_proxy_port=3128), {}, False, P, True),
            (dict(http_proxy_host="px", http_proxy_port=3128, http_no_proxy=["target.example"]), {}, False, T, False),
            (dict(http_proxy_host="px", http_proxy_port=3128, http_no_proxy=[".example"]), {}, False, T, False),
            (dict(http_proxy_host="px", http_proxy_port=3128, http_no_proxy=["other"]), {}, False, P, True),
            ({}, {"http_proxy": "http://px:3128"}, False, P, True),
            ({}, {"http_proxy": "http://px:3128"}, True, T, False),
            ({}, {"https_proxy": "http://px:3128"}, True, P, True),
            # the proxy comes from the environment, the exemption from the option
            (dict(http_no_proxy=["target.example"]), {"http_proxy": "http://px:3128"}, False, T, False),
            (dict(http_no_proxy=["*"]), {"https_proxy": "http://px:3128"}, True, T, False),
            (dict(http_no_proxy=[".example"]), {"http_proxy": "http://px:3128"}, False, T, False),
            (dict(http_no_proxy=["other"]), {"http_proxy": "http://px:3128"}, False, P, True),
            # the option, when given, decides alone
            (dict(http_no_proxy=["other"]), {"http_proxy": "http://px:3128", "no_proxy": "target.example"}, False, P, True),
            ({}, {"http_proxy": "http://px:3128", "no_proxy": "target.example"}, False, T, False),
        ]
        for opts, env, secure, want, tunnel in cases:
            for k in saved:
                os.environ.pop(k, None)
            os.environ.update(env)
            del asked[:]
            try:
                pi = h.proxy_info(**opts)
                lst, need, auth = h._get_addrinfo_list(T[0], T[1], secure, pi)
            except Exception as ex:  # noqa
                probs.append(f"options {opts} env {env} secure={secure}: {type(ex).__name__}: {ex}")
                continue
            if asked != [want] or bool(need) != tunnel:
                probs.append(f"options {opts} env {env} secure={secure}: dialled {asked} tunnel={need}, expected {[want]} tunnel={tunnel}")
    finally:
        h.socket.getaddrinfo = real
        for k, v in saved.items():
            os.environ.pop(k, None)
            if v is not None:
                os.environ[k] = v
    return probs


def search(tier="quick", seed=0):
    n = 0
    for h, ents in grid():
        n += 1
        r = check_exempt(h, ents)
        if r:
            return dict(found=True, witness=dict(kind="exempt", host=h, no_proxy=list(ents)), detail=r, tried=n)
    for kind, fn in (("env", check_env), ("options", check_options), ("tunnel", check_tunnel)):
        p = fn()
        n += 1
        if p:
            return dict(found=True, witness=dict(kind=kind), detail=p, tried=n)
    return dict(found=False, tried=n)


def bounded(tier, seed):
    import time
    t0 = time.time()
    r = search(tier, seed)
    viol = [dict(check="exemption / proxy selection grid", witness_id="C19:" + repr(r["witness"])[:90], witness=r["witness"], detail=r["detail"])] if r.get("found") else []
    return dict(name="exemption over a 3-label alphabet (look-alike suffixes enumerated), every IPv4 prefix length, proxy options / environment "
                     "combinations, CONNECT request and reply status classes", bound="host names up to 3 labels over {a,b,ab}; prefixes 0..32",
                labelled="bounded", cases=r["tried"], wall_s=round(time.time() - t0, 2), violations=viol)


def concretise(res, tier, seed):
    return search(tier, seed)


def replay_witness(w):
    if w.get("kind") == "exempt":
        return check_exempt(w["host"], tuple(w["no_proxy"])) is not None
    return bool({"env": check_env, "options": check_options, "tunnel": check_tunnel}[w["kind"]]())


if __name__ == "__main__":
    print(search())
