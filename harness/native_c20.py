"""Bounded exhaustive check of SimpleCookieJar.add / get against the statement of C20 (small alphabets, histories up to 3)."""
import itertools

NAMES, VALUES = ["a", "b"], ["1", "2"]
DOMAINS = [None, "x.y", "X.Y", ".x.y", ".X.Y", ".x.Y", "y", "a.x.y", "X.y"]
HOSTS = ["x.y", "a.x.y", "ax.y", "xx.y", "y", "x.y.z", "X.Y", "A.x.Y", "b.a.x.y", ""]


def spec_add(view, cookies, domain):
    if domain is None or not cookies:
        return
    d = domain if domain.startswith(".") else "." + domain
    view.setdefault(d.lower(), {}).update(cookies)


def covers(d, host):
    return host == d[1:] or host.endswith(d)


def spec_get(view, host):
    if not host:
        return ""
    h = host.lower()
    merged = {}
    items = []
    for d, ck in view.items():
        if covers(d, h):
            for k, v in ck.items():
                items.append(f"{k}={v}")
    return "; ".join(sorted(items))


def set_cookie_header(cookies, domain):
    parts = []
    for k, v in cookies.items():
        parts.append(f"{k}={v}" + (f"; Domain={domain}" if domain is not None else ""))
    return ", ".join(parts) if False else "; ".join(parts) if len(parts) == 1 else None


def run_history(hist):
    """hist: list of (name, value, domain).  Returns the first discrepancy or None."""
    from websocket._cookiejar import SimpleCookieJar
    jar = SimpleCookieJar()
    view = {}
    for (k, v, dom) in hist:
        hdr = f"{k}={v}" + (f"; Domain={dom}" if dom is not None else "")
        jar.add(hdr)
        spec_add(view, {k: v}, dom)
    for host in HOSTS:
        got, want = jar.get(host), spec_get(view, host)
        if got != want:
            return dict(history=[list(x) for x in hist], host=host, got=got, expected=want)
    return None


def search(max_len, limit=None):
    n = 0
    steps = [(k, v, d) for k in NAMES for v in VALUES for d in DOMAINS]
    for ln in range(1, max_len + 1):
        for hist in itertools.product(steps, repeat=ln):
            n += 1
            r = run_history(hist)
            if r:
                return dict(found=True, witness=r, tried=n)
            if limit and n >= limit:
                return dict(found=False, tried=n, exhaustive=False)
    return dict(found=False, tried=n, exhaustive=True)


def bounded(tier, seed):
    import time
    t0 = time.time()
    r = search(2 if tier == "quick" else 3)
    viol = []
    if r.get("found"):
        viol.append(dict(check="SimpleCookieJar.add/get vs. the statement of C20", witness_id="C20:jar:" + repr(r["witness"]["history"])[:80],
                         witness=r["witness"], detail=r["witness"]))
    return dict(name="exhaustive enumeration of response histories for SimpleCookieJar.add/get against a reference model written from the statement",
                bound=f"histories of length <= {2 if tier == 'quick' else 3} over 2 names x 2 values x {len(DOMAINS)} domain spellings; {len(HOSTS)} target hosts each",
                labelled="bounded", histories=r["tried"], exhaustive=r.get("exhaustive", False), wall_s=round(time.time() - t0, 2), violations=viol)


def concretise(res, tier, seed):
    return search(2 if tier == "quick" else 3)


def replay_witness(w):
    return run_history([tuple(x) for x in w["history"]]) is not None


if __name__ == "__main__":
    print(search(2))
