"""Bounded exhaustive check of SimpleCookieJar.add / get against the statement of C20 (small alphabets, histories up to 3)."""
import itertools

NAMES, VALUES = ["a", "b", "a1"], ["1", "2"]  # "a1": a name that extends another by a character below "="
DOMAINS = [None, "x.y", "X.Y", ".x.y", ".X.Y", ".x.Y", "y", "a.x.y", "X.y"]
HOSTS = ["x.y", "a.x.y", "ax.y", "xx.y", "y", "x.y.z", "X.Y", "A.x.Y", "b.a.x.y", ""]


def spec_add(view, cookies, domain):
    if domain is None or not cookies:
        return
    d = domain if domain.startswith(".") else "." + domain
    view.setdefault(d.lower(), {}).update(cookies)


def covers(d, host):
    return host == d[1:] or host.endswith(d)


def spec_get(view, host):
    if not host:
        return ""
    h = host.lower()
    merged = {}
    items = []
    for d, ck in view.items():
        if covers(d, h):
            for k, v in ck.items():
                items.append(f"{k}={v}")
    return items


def same_answer(got, items):
    """the Cookie text is the expected cookies, name-sorted (cookies of equal name - one per covering domain - in either order)."""
    if not items:
        return got == ""
    parts = got.split("; ")
    if sorted(parts) != sorted(items):
        return False
    names = [p.split("=", 1)[0] for p in parts]
    return names == sorted(names)


def set_cookie_header(cookies, domain):
    parts = []
    for k, v in cookies.items():
        parts.append(f"{k}={v}" + (f"; Domain={domain}" if domain is not None else ""))
    return ", ".join(parts) if False else "; ".join(parts) if len(parts) == 1 else None


def run_history(hist):
    """hist: list of (name, value, domain).  Returns the first discrepancy or None."""
    from websocket._cookiejar import SimpleCookieJar
    jar = SimpleCookieJar()
    view = {}
    for (k, v, dom) in hist:
        hdr = f"{k}={v}" + (f"; Domain={dom}" if dom is not None else "")
        jar.add(hdr)
        spec_add(view, {k: v}, dom)
    for host in HOSTS:
        got, want = jar.get(host), spec_get(view, host)
        if not same_answer(got, want or []):
            return dict(history=[list(x) for x in hist], host=host, got=got, expected="name-sorted " + repr(want))
    return None


def check_header():
    """the Cookie line of the real request: the jar's answer for the host followed by the caller's cookie, whatever the caller's
    cookie looks like (same name as a stored one, a substring of the jar's text, ...)."""
    import websocket._handshake as hs
    from websocket._cookiejar import SimpleCookieJar
    probs = []
    saved = hs.CookieJar
    try:
        for stored, caller in ((["sid=1; Domain=x.y"], "sid=9"), (["sid=1; Domain=x.y", "t=2; Domain=x.y"], "t=2"), (["aa=1; Domain=x.y"], "a=1"),
                               (["sid=1; Domain=x.y"], None), ([], "sid=9"), (["sid=1; Domain=other.z"], "k=v")):
            jar = SimpleCookieJar()
            for h in stored:
                jar.add(h)
            hs.CookieJar = jar
            opts = {} if caller is None else {"cookie": caller}
            headers, key = hs._get_handshake_headers("/", "ws://x.y/", "x.y", 80, opts)
            line = [h for h in headers if h.lower().startswith("cookie:")]
            want = "; ".join(x for x in (jar.get("x.y"), caller) if x)
            got = line[0][len("Cookie: "):] if line else ""
            if got != want or len(line) > 1:
                probs.append(f"stored {stored}, cookie option {caller!r}: Cookie header {got!r}, expected {want!r}")
    finally:
        hs.CookieJar = saved
    return probs


def check_lower_axiom():
    """A-LOWER, the library axiom the jar contracts use for str.lower(): idempotent, keeps a leading '.' (and creates none), maps
    only '' to ''.  Checked per code point (str.lower is per character except for the final-sigma rule, which involves neither)."""
    import sys
    bad = []
    for i in range(sys.maxunicode + 1):
        ch = chr(i)
        lo = ch.lower()
        if lo.lower() != lo or lo == "" or (lo.startswith(".") != (ch == ".")):
            bad.append(hex(i))
            if len(bad) > 3:
                break
    for s_ in (".Example.COM", "\u03a3\u0391\u03a3", ".\u0130x", "A.B"):
        lo = s_.lower()
        if lo.lower() != lo or lo.startswith(".") != s_.startswith("."):
            bad.append(repr(s_))
    return [f"str.lower() violates A-LOWER for {bad}"] if bad else []


def search(max_len, limit=None):
    n = 0
    p = check_lower_axiom() or check_header()
    if p:
        return dict(found=True, witness=dict(history=[["header-assembly", p[0], None]], kind="header"), tried=1)
    steps = [(k, v, d) for k in NAMES for v in VALUES for d in DOMAINS]
    for ln in range(1, max_len + 1):
        for hist in itertools.product(steps, repeat=ln):
            n += 1
            r = run_history(hist)
            if r:
                return dict(found=True, witness=r, tried=n)
            if limit and n >= limit:
                return dict(found=False, tried=n, exhaustive=False)
    return dict(found=False, tried=n, exhaustive=True)


def bounded(tier, seed):
    import time
    t0 = time.time()
    r = search(2 if tier == "quick" else 3)
    viol = []
    if r.get("found"):
        viol.append(dict(check="SimpleCookieJar.add/get vs. the statement of C20", witness_id="C20:jar:" + repr(r["witness"]["history"])[:80],
                         witness=r["witness"], detail=r["witness"]))
    return dict(name="exhaustive enumeration of response histories for SimpleCookieJar.add/get against a reference model written from the statement",
                bound=f"histories of length <= {2 if tier == 'quick' else 3} over 2 names x 2 values x {len(DOMAINS)} domain spellings; {len(HOSTS)} target hosts each",
                labelled="bounded", histories=r["tried"], exhaustive=r.get("exhaustive", False), wall_s=round(time.time() - t0, 2), violations=viol)


def concretise(res, tier, seed):
    return search(2 if tier == "quick" else 3)


def replay_witness(w):
    if w.get("kind") == "header":
        return bool(check_header())
    return run_history([tuple(x) for x in w["history"]]) is not None


if __name__ == "__main__":
    print(search(2))
