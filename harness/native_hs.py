"""Native differential for the opening handshake (C09, C10, C17, C03 handshake boundary): real WebSocket.connect() over an
in-memory transport fed with scripted response heads, against an independent reading of RFC 6455 section 4."""
import base64
import hashlib
import random

from . import specexec as S
from .memsock import MemSock, HarnessHang

GUID = b"258EAFA5-E914-47DA-95CA-C5AB0DC85B11"
DOCUMENTED = ("WebSocketException", "WebSocketProtocolException", "WebSocketPayloadException", "WebSocketConnectionClosedException",
              "WebSocketTimeoutException", "WebSocketProxyException", "WebSocketBadStatusException", "WebSocketAddressException")
TRANSPORT = ("OSError", "TimeoutError", "timeout", "ConnectionError", "BrokenPipeError", "SSLError")


class HsSock(MemSock):
    """Answers the request with a response computed from the request's key."""

    def __init__(self, make_response, chunking="whole", tail=b"", eof=True):
        super().__init__([], eof=eof)
        self.make_response, self.chunking, self.tail = make_response, chunking, tail
        self.request = b""
        self.responses = 0

    def send(self, data):
        n = super().send(data)
        self.request += bytes(data[:n])
        if self.request.endswith(b"\r\n\r\n"):
            key = None
            for line in self.request.split(b"\r\n"):
                if line.lower().startswith(b"sec-websocket-key:"):
                    key = line.split(b":", 1)[1].strip()
            resp = self.make_response(key, self.responses) + (self.tail if self.responses == 0 else b"")
            self.responses += 1
            self.last_request, self.request = self.request, b""
            if self.chunking == "bytes":
                self.script += [resp[i:i + 1] for i in range(len(resp))]
            else:
                self.script.append(resp)
        return n


def accept(key):
    return base64.b64encode(hashlib.sha1(key + GUID).digest())


def ok_response(key, extra=b"", acc=None, upgrade=b"websocket", connection=b"Upgrade", status=b"101 Switching Protocols"):
    a = accept(key) if acc is None else acc
    return (b"HTTP/1.1 " + status + b"\r\nUpgrade: " + upgrade + b"\r\nConnection: " + connection + b"\r\nSec-WebSocket-Accept: " + a + b"\r\n" + extra + b"\r\n")


def response_valid(resp, key, subprotocols=None):
    """independent validity check of a response head (RFC 6455 4.1 / 4.2.2)."""
    try:
        head = resp.split(b"\r\n\r\n")[0].decode("utf-8")
    except UnicodeDecodeError:
        return False
    lines = head.split("\r\n")
    parts = lines[0].split(" ", 2)
    if len(parts) < 2 or parts[1] != "101":
        return False
    hd = {}
    for l in lines[1:]:
        if ":" not in l:
            return False
        k, v = l.split(":", 1)
        hd[k.strip().lower()] = v.strip()
    toks = lambda v: [t.strip().lower() for t in v.split(",")]
    if "websocket" not in toks(hd.get("upgrade", "")) or "upgrade" not in toks(hd.get("connection", "")):
        return False
    if hd.get("sec-websocket-accept", "").encode() != accept(key):
        return False
    if subprotocols:
        if hd.get("sec-websocket-protocol", "").lower() not in [s.lower() for s in subprotocols]:
            return False
    return True


def cases(rnd):
    swap = lambda b: bytes(c ^ 0x20 if chr(c).isalpha() else c for c in b)
    C = []
    C.append(("valid", lambda k, i: ok_response(k), {}))
    C.append(("valid-tokens", lambda k, i: ok_response(k, upgrade=b"h2c, WebSocket", connection=b"keep-alive , upgrade"), {}))
    C.append(("accept-swapcase", lambda k, i: ok_response(k, acc=swap(accept(k))), {}))
    C.append(("accept-other-key", lambda k, i: ok_response(k, acc=accept(b"AAAAAAAAAAAAAAAAAAAAAA==")), {}))
    # non-ASCII / non-Latin-1 text in header values of an otherwise acceptable 101: must be a plain rejection, never an internal error
    C.append(("accept-non-ascii", lambda k, i: ok_response(k, acc=accept(k)[:-2] + "\u00e9".encode("utf-8")), {}))
    C.append(("accept-non-latin1", lambda k, i: ok_response(k, acc="\u4e2d".encode("utf-8") + accept(k)), {}))
    C.append(("upgrade-non-ascii", lambda k, i: ok_response(k, upgrade="websock\u00e9t".encode("utf-8")), {}))
    C.append(("subprotocol-non-ascii", lambda k, i: ok_response(k, extra=b"Sec-WebSocket-Protocol: ch\xc3\xa4t\r\n"), {"subprotocols": ["chat"]}))
    C.append(("accept-missing", lambda k, i: b"HTTP/1.1 101 X\r\nUpgrade: websocket\r\nConnection: Upgrade\r\n\r\n", {}))
    C.append(("no-upgrade", lambda k, i: ok_response(k, upgrade=b"web socket"), {}))
    C.append(("connection-close", lambda k, i: ok_response(k, connection=b"close"), {}))
    C.append(("status-200", lambda k, i: ok_response(k, status=b"200 OK"), {}))
    C.append(("status-403-body", lambda k, i: b"HTTP/1.1 403 No\r\nContent-Length: 5\r\n\r\nhello", {}))
    C.append(("status-403-huge-length", lambda k, i: b"HTTP/1.1 403 No\r\nContent-Length: 99999999999999999999\r\n\r\n", {}))
    C.append(("status-403-bad-length", lambda k, i: b"HTTP/1.1 403 No\r\nContent-Length: x\r\n\r\n", {}))
    C.append(("garbage-line", lambda k, i: b"garbage\r\n\r\n", {}))
    C.append(("non-numeric-status", lambda k, i: b"HTTP/1.1 abc\r\n\r\n", {}))
    C.append(("not-utf8", lambda k, i: b"\xff\xfe\r\n\r\n", {}))
    # Content-Length values that str.isdigit() accepts and int() refuses (superscript two), and Unicode decimal digits int() accepts
    C.append(("content-length-superscript", lambda k, i: "HTTP/1.1 400 Bad\r\nContent-Length: \u00b2\r\n\r\n".encode("utf-8"), {}))
    C.append(("content-length-arabic-digits", lambda k, i: "HTTP/1.1 400 Bad\r\nContent-Length: \u0663\r\n\r\nabc".encode("utf-8"), {}))
    C.append(("content-length-huge", lambda k, i: b"HTTP/1.1 400 Bad\r\nContent-Length: 99999999999\r\n\r\n", {}))
    C.append(("header-without-colon", lambda k, i: b"HTTP/1.1 101 X\r\nnocolon\r\n\r\n", {}))
    C.append(("eof-midway", lambda k, i: b"HTTP/1.1 101 Switching", {}))
    C.append(("redirect-limit0", lambda k, i: b"HTTP/1.1 301 Moved\r\nLocation: ws://example.com/y\r\n\r\n", {"redirect_limit": 0}))
    C.append(("redirect-no-location", lambda k, i: b"HTTP/1.1 301 Moved\r\n\r\n", {}))
    C.append(("redirect-bad-location", lambda k, i: b"HTTP/1.1 302 Moved\r\nLocation: nonsense\r\n\r\n", {}))
    C.append(("subprotocol-ok", lambda k, i: ok_response(k, extra=b"Sec-WebSocket-Protocol: Chat\r\n"), {"subprotocols": ["chat", "v2"]}))
    C.append(("subprotocol-wrong", lambda k, i: ok_response(k, extra=b"Sec-WebSocket-Protocol: other\r\n"), {"subprotocols": ["chat"]}))
    C.append(("subprotocol-missing", lambda k, i: ok_response(k), {"subprotocols": ["chat"]}))
    for j in range(6):
        blob = bytes(rnd.randrange(256) for _ in range(rnd.randint(0, 40)))
        C.append((f"random-{j}", (lambda b: (lambda k, i: b + b"\r\n\r\n"))(blob), {}))
    return C


def run_case(name, mk, opts, chunking="whole", tail=b""):
    import websocket
    ws = websocket.WebSocket()
    sock = HsSock(mk, chunking, tail)
    problems = []
    exc = None
    try:
        ws.connect("ws://example.com/x", socket=sock, **opts)
    except HarnessHang as ex:
        return [f"endless read loop: {ex}"]
    except Exception as ex:  # noqa
        exc = ex
    req = getattr(sock, "last_request", b"")
    key = None
    for line in req.split(b"\r\n"):
        if line.lower().startswith(b"sec-websocket-key:"):
            key = line.split(b":", 1)[1].strip()
    resp = mk(key or b"", 0)
    valid = key is not None and response_valid(resp, key, opts.get("subprotocols"))
    if exc is None:
        if not ws.connected or ws.sock is None:
            problems.append("connect() returned but the object is not connected")
        if not valid:
            problems.append(f"connect() reported success for an invalid response (status {ws.getstatus()})")
    else:
        nm = type(exc).__name__
        if nm not in DOCUMENTED and nm not in TRANSPORT:
            problems.append(f"internal error {nm}: {exc}")
        if ws.connected or ws.sock is not None:
            problems.append("failed connect() left the object connected / holding a transport")
        if not sock.closed:
            problems.append("failed connect() did not close the transport")
        if valid and not name.startswith("redirect"):
            problems.append(f"valid response refused with {nm}: {exc}")
    big = [r for r in sock.requests if r > 16384]
    if big:
        problems.append(f"transport asked for {big[0]} bytes (peer-declared length)")
    if tail and exc is None:
        # frames in the same segment as the response must still be delivered (handshake boundary, C03)
        try:
            got = ws.recv()
            if got != "hi":
                problems.append(f"frame after the handshake response lost or corrupted: {got!r}")
        except HarnessHang as ex:
            problems.append(f"endless read loop: {ex}")
        except Exception as ex:  # noqa
            problems.append(f"frame after the handshake response lost: {type(ex).__name__}")
    return problems


def search(seed, budget=400):
    rnd = random.Random(seed)
    tried = 0
    tail = S.rfc_encode(1, 1, b"hi")
    for name, mk, opts in cases(rnd):
        for chunking in ("whole", "bytes"):
            for t in (b"", tail):
                tried += 1
                p = run_case(name, mk, opts, chunking, t)
                if p:
                    return dict(found=True, witness=dict(case=name, chunking=chunking, tail=bool(t), seed=seed), detail=p, tried=tried)
    return dict(found=False, tried=tried)


def replay_witness(w):
    rnd = random.Random(w.get("seed", 0))
    tail = S.rfc_encode(1, 1, b"hi") if w.get("tail") else b""
    for name, mk, opts in cases(rnd):
        if name == w["case"]:
            return bool(run_case(name, mk, opts, w["chunking"], tail))
    return False


if __name__ == "__main__":
    import sys
    print(search(int(sys.argv[1]) if len(sys.argv) > 1 else 0))
