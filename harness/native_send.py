"""Native differential for the send path (C01, C12 sequential part): real WebSocket.send*/ping/pong/send_frame on an
in-memory transport with short writes, decoded by the independent decoder of specexec."""
import random

from . import specexec as S
from .memsock import MemSock

LENGTHS = [0, 1, 2, 3, 4, 5, 7, 124, 125, 126, 127, 128, 65534, 65535, 65536, 65537, 70000]


def one(length, opcode, fin, keykind, api, short, seed=0, text=False, bytearray_=False):
    import websocket
    from websocket._abnf import ABNF
    rnd = random.Random(seed * 7919 + length)
    draws = []
    reset = False

    def bkey(n):
        k = bytes(rnd.randrange(256) for _ in range(n))
        draws.append(k)
        return k

    def skey(n):
        k = "".join(chr(rnd.randrange(33, 127)) for _ in range(n))
        draws.append(k.encode("ascii"))
        return k
    ws = websocket.WebSocket()
    ws.sock = MemSock([], short_writes=list(short))
    ws.connected = True
    if keykind == "bytes":
        ws.set_mask_key(bkey)
    elif keykind == "str":
        ws.set_mask_key(skey)
    elif keykind == "default" and length % 3 == 0:
        ws.set_mask_key(skey)
        ws.set_mask_key(None)  # back to the default source: nothing may be drawn from the replaced one
        reset = True
    if text:
        s = "".join(rnd.choice("aé€😀z") for _ in range(length))
        payload, expect = s, s.encode("utf-8")
        opcode = 1
    else:
        expect = bytes(rnd.randrange(256) for _ in range(length))
        payload = bytearray(expect) if bytearray_ else expect
    if api == "send":
        ret = ws.send(payload, opcode)
    elif api == "send_binary":
        ret, opcode = ws.send_binary(payload), 2
    elif api == "send_bytes":
        ret, opcode = ws.send_bytes(payload), 2
    elif api == "send_text":
        ret, opcode = ws.send_text(payload), 1
    elif api == "ping":
        ret, opcode = ws.ping(payload), 9
    elif api == "pong":
        ret, opcode = ws.pong(payload), 10
    elif api == "send_frame":
        ret = ws.send_frame(ABNF.create_frame(payload, opcode, fin))
    elif api == "send_close":
        ret, opcode = ws.send_close(1000 + length % 12, expect[:100]), 8
        expect = (1000 + length % 12).to_bytes(2, "big") + expect[:100]
    wire = ws.sock.wire()
    f = S.rfc_decode(wire, 0)
    problems = []
    if f is None or f["next"] != len(wire):
        return ["not exactly one complete frame on the wire"]
    want_fin = fin if api == "send_frame" else 1
    if (f["fin"], f["rsv1"], f["rsv2"], f["rsv3"], f["opcode"]) != (want_fin, 0, 0, 0, opcode):
        problems.append(f"header {f['fin']},{f['rsv1']}{f['rsv2']}{f['rsv3']},{f['opcode']}")
    if not f["masked"]:
        problems.append("mask bit clear")
    if f["payload"] != expect:
        problems.append("payload differs")
    if wire != S.rfc_encode(want_fin, opcode, expect, f["key"]):
        problems.append("not the shortest length form")
    if reset and (ws.get_mask_key is not None or draws):
        problems.append("set_mask_key(None) did not restore the default key source (or the replaced source was still drawn from)")
    if keykind in ("bytes", "str") and (len(draws) != 1 or draws[0] != f["key"]):
        problems.append(f"key on the wire is not the single value drawn ({len(draws)} draws)")
    if api in ("send", "send_binary", "send_bytes", "send_text", "send_frame") and ret != len(wire):
        problems.append(f"returned {ret}, wrote {len(wire)}")
    return problems


def search(seed, budget, hint=None):
    rnd = random.Random(seed)
    tried = 0
    combos = []
    for length in LENGTHS:
        for api in ("send", "send_frame", "ping", "pong", "send_binary", "send_bytes", "send_text", "send_close"):
            for keykind in ("default", "bytes", "str"):
                combos.append((length, api, keykind))
    rnd.shuffle(combos)
    combos.sort(key=lambda t: t[0] > 200)  # cheap ones first
    for (length, api, keykind) in combos:
        if tried >= budget:
            break
        if api in ("ping", "pong", "send_close") and length > 125:
            continue
        opcode = rnd.choice([1, 2, 0]) if api in ("send", "send_frame") else 2
        fin = rnd.choice([0, 1])
        short = [rnd.choice([1, 2, 3, 5, 0, 10 ** 9]) for _ in range(rnd.randint(0, 6))]
        for text in ((True,) if api == "send_text" else (False, True) if api == "send" and length < 200 else (False,)):
            tried += 1
            w = dict(length=length, opcode=opcode, fin=fin, keykind=keykind, api=api, short=short, seed=seed, text=text,
                     bytearray_=bool(length % 2) and not text)
            p = one(**w)
            if p:
                return dict(found=True, witness=w, detail=p, tried=tried)
    return dict(found=False, tried=tried)


def replay_witness(w):
    return bool(one(**w))
