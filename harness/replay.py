"""From a failed obligation to a replay on the real code (DESIGN.md 2.9)."""
import importlib
import json
import sys


def concretise(pid, res, tier, seed):
    """Search natively for an input on which the real code violates the property's executable oracle."""
    try:
        mod = importlib.import_module(f"harness.native_{pid.lower()}")
    except ModuleNotFoundError:
        return dict(found=False, note="no native concretiser for this property")
    return mod.concretise(res, tier, seed)


def replay_known(f):
    mod = importlib.import_module(f"harness.native_{f['property'].lower()}")
    return mod.replay_witness(f["witness"])


def run_replay_file(path):
    d = json.load(open(path))
    pid = d["property"]
    conc = d.get("concrete") or {}
    print(f"replay {path}: obligation {d.get('obligation')}")
    if not conc.get("found"):
        print("no concrete failing input was recorded; solver output:")
        print(json.dumps(d.get("solver"), indent=1))
        return 1
    mod = importlib.import_module(f"harness.native_{pid.lower()}")
    still = mod.replay_witness(conc["witness"])
    print("witness:", json.dumps(conc["witness"])[:400])
    print("still violates on the current tree:", still)
    if still:
        print(f"VIOLATION property={pid} replay={path}")
        return 1
    return 0
