"""Executable twins of the spec functions (independent of the code under test): RFC 6455 framing,
Unicode Table 3-7 well-formedness, frame admissibility, message reassembly with expected replies."""
import struct

TABLE_3_7 = [
    (0x00, 0x7F, None, None, 0), (0xC2, 0xDF, 0x80, 0xBF, 1), (0xE0, 0xE0, 0xA0, 0xBF, 2), (0xE1, 0xEC, 0x80, 0xBF, 2),
    (0xED, 0xED, 0x80, 0x9F, 2), (0xEE, 0xEF, 0x80, 0xBF, 2), (0xF0, 0xF0, 0x90, 0xBF, 3), (0xF1, 0xF3, 0x80, 0xBF, 3),
    (0xF4, 0xF4, 0x80, 0x8F, 3)]


def wf_utf8(b):
    i, n = 0, len(b)
    while i < n:
        x = b[i]
        for (flo, fhi, slo, shi, trail) in TABLE_3_7:
            if flo <= x <= fhi:
                if i + trail > n - 1:
                    return False  # sequence cut short at the end
                if trail >= 1 and not (slo <= b[i + 1] <= shi):
                    return False
                for k in range(2, trail + 1):
                    if not (0x80 <= b[i + k] <= 0xBF):
                        return False
                i += trail + 1
                break
        else:
            return False
    return True


def xormask(data, key):
    return bytes(x ^ key[i % 4] for i, x in enumerate(data))


def rfc_encode(fin, opcode, payload, key=None, rsv=(0, 0, 0)):
    b0 = fin << 7 | rsv[0] << 6 | rsv[1] << 5 | rsv[2] << 4 | opcode
    n = len(payload)
    m = 0x80 if key is not None else 0
    if n <= 125:
        hdr = bytes([b0, m | n])
    elif n <= 65535:
        hdr = bytes([b0, m | 126]) + n.to_bytes(2, "big")
    else:
        hdr = bytes([b0, m | 127]) + n.to_bytes(8, "big")
    if key is None:
        return hdr + payload
    return hdr + key + xormask(payload, key)


def rfc_decode(s, pos=0):
    """-> dict(fin,rsv1,rsv2,rsv3,opcode,masked,length,key,payload,next) or None if incomplete."""
    if len(s) < pos + 2:
        return None
    b0, b1 = s[pos], s[pos + 1]
    l7 = b1 & 0x7F
    p = pos + 2
    if l7 == 126:
        if len(s) < p + 2:
            return None
        n = int.from_bytes(s[p:p + 2], "big")
        p += 2
    elif l7 == 127:
        if len(s) < p + 8:
            return None
        n = int.from_bytes(s[p:p + 8], "big")
        p += 8
    else:
        n = l7
    key = None
    if b1 & 0x80:
        if len(s) < p + 4:
            return None
        key = s[p:p + 4]
        p += 4
    if len(s) < p + n:
        return None
    raw = s[p:p + n]
    return dict(fin=b0 >> 7, rsv1=b0 >> 6 & 1, rsv2=b0 >> 5 & 1, rsv3=b0 >> 4 & 1, opcode=b0 & 15, masked=b1 >> 7,
                length=n, key=key, payload=xormask(raw, key) if key else raw, next=p + n)


MUST_ACCEPT = set(range(1000, 1004)) | set(range(1007, 1012)) | set(range(3000, 5000))


def must_reject(code):
    return code <= 999 or code in (1004, 1005, 1006, 1015) or 1016 <= code <= 2999 or code >= 5000


def rfc_ok(f, skip=False):
    """'ok' admissible, 'bad' must be refused, 'open' either (close codes 1012-1014)."""
    if f["rsv1"] or f["rsv2"] or f["rsv3"] or f["opcode"] not in (0, 1, 2, 8, 9, 10):
        return "bad"
    if f["opcode"] >= 8 and (not f["fin"] or f["length"] > 125):
        return "bad"
    if f["opcode"] == 8 and f["length"] > 0:
        if f["length"] == 1:
            return "bad"
        code = f["payload"][0] * 256 + f["payload"][1]
        if must_reject(code):
            return "bad"
        if not skip and not wf_utf8(f["payload"][2:]):
            return "bad"
        if code not in MUST_ACCEPT:
            return "open"
    return "ok"
