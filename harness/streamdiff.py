"""Differential harness for the receive path: the real WebSocket.recv* on an in-memory transport against a
reference model written from RFC 6455 (specexec).  Used to concretise failed obligations of C02-C07/C17
and as a runtime cross-check of the contracts' reading of the code."""
import random
import sys

from . import specexec as S
from .memsock import MemSock, HarnessHang

KEY = b"\x11\x22\x33\x44"


def mk_ws(chunks, fire=False, skip=False, eof=True):
    import websocket
    ws = websocket.WebSocket(fire_cont_frame=fire, skip_utf8_validation=skip)
    ws.sock = MemSock(chunks, eof=eof)
    ws.connected = True
    ws.set_mask_key(lambda n: KEY)
    return ws


def run_real(stream, chunks, api="recv", fire=False, skip=False, max_calls=64):
    """-> (observations, wire bytes, request sizes).  Timeouts are retried (that is the property)."""
    import websocket
    ws = mk_ws(chunks, fire, skip)
    sock = ws.sock
    obs = []
    for _ in range(max_calls):
        before = len(sock.wire())
        try:
            if api == "recv":
                v = ws.recv()
                o = ("ret", v if isinstance(v, str) else bytes(v))
            elif api == "recv_data":
                op, data = ws.recv_data(False)
                o = ("ret", op, bytes(data))
            elif api == "recv_data_ctl":
                op, data = ws.recv_data(True)
                o = ("ret", op, bytes(data))
            elif api == "recv_data_frame":
                op, fr = ws.recv_data_frame(True)
                o = ("ret", op, fr.fin, fr.opcode, bytes(fr.data))
            else:
                fr = ws.recv_frame()
                o = ("ret", fr.fin, fr.opcode, bytes(fr.data))
        except websocket.WebSocketTimeoutException:
            continue
        except websocket.WebSocketConnectionClosedException:
            obs.append(("exc", "WebSocketConnectionClosedException"))
            break
        except HarnessHang:
            obs.append(("hang", "keeps reading after the end of the stream"))
            break
        except Exception as ex:  # noqa
            o = ("exc", type(ex).__name__)
        obs.append(o + (("tx", sock.wire()[before:]),))
    return obs, sock.wire(), list(sock.requests)


def run_spec(stream, api="recv", fire=False, skip=False, max_calls=64):
    """Reference model.  'open' verdicts (close codes 1012-1014) are reported as ('either',) and end the comparison."""
    pos = 0
    obs = []
    m_open, m_op, m_data = False, None, b""
    replied_close = False
    for _ in range(max_calls):
        tx = b""
        result = None
        while result is None:
            f = S.rfc_decode(stream, pos)
            if f is None:
                result = ("eof",)
                break
            pos = f["next"]
            ok = S.rfc_ok(f, skip)
            if ok == "open":
                return obs + [("either",)]
            if ok == "bad":
                result = ("exc", "WebSocketProtocolException")
                break
            op = f["opcode"]
            if api == "recv_frame":
                result = ("ret", f["fin"], op, f["payload"])
                break
            if op in (0, 1, 2):
                if (op == 0) != m_open:
                    result = ("exc", "WebSocketProtocolException")
                    break
                if op == 0:
                    m_data += f["payload"]
                else:
                    m_op, m_data = op, f["payload"]
                m_open = not f["fin"]
                if fire:
                    r_op, r_data = op, f["payload"]
                    deliver = True
                else:
                    r_op, r_data = m_op, m_data
                    deliver = bool(f["fin"])
                    if deliver and m_op == 1 and not skip and not S.wf_utf8(m_data):
                        result = ("exc", "WebSocketPayloadException")
                        break
                if deliver:
                    if api == "recv":
                        if r_op == 1:
                            if not S.wf_utf8(r_data):
                                result = ("exc", "WebSocketPayloadException")
                            else:
                                result = ("ret", r_data.decode("utf-8"))
                        elif r_op == 2:
                            result = ("ret", r_data)
                        else:
                            result = ("ret", "")
                    elif api in ("recv_data", "recv_data_ctl"):
                        result = ("ret", r_op, r_data)
                    else:
                        result = ("ret", r_op, f["fin"], op, r_data)
            elif op == 8:
                if not replied_close:
                    tx += S.rfc_encode(1, 8, (1000).to_bytes(2, "big"), KEY)
                    replied_close = True
                if api == "recv":
                    result = ("ret", "")
                elif api in ("recv_data", "recv_data_ctl"):
                    result = ("ret", 8, f["payload"])
                else:
                    result = ("ret", 8, f["fin"], 8, f["payload"])
            elif op == 9:
                tx += S.rfc_encode(1, 10, f["payload"], KEY)
                if api in ("recv_data_ctl", "recv_data_frame"):
                    result = ("ret", 9, f["payload"]) if api == "recv_data_ctl" else ("ret", 9, f["fin"], 9, f["payload"])
            elif op == 10:
                if api in ("recv_data_ctl", "recv_data_frame"):
                    result = ("ret", 10, f["payload"]) if api == "recv_data_ctl" else ("ret", 10, f["fin"], 10, f["payload"])
        if result == ("eof",):
            if tx:
                obs.append(("pending-tx", tx))
            obs.append(("exc", "WebSocketConnectionClosedException"))
            break
        obs.append(result + (("tx", tx),))
    return obs


def compare(stream, chunks, api, fire, skip):
    """None if the real code agrees with the reference model, else a description."""
    real, wire, reqs = run_real(stream, chunks, api, fire, skip)
    exp = run_spec(stream, api, fire, skip)
    if any(r > 16384 for r in reqs):
        return dict(kind="request-size", requests=[r for r in reqs if r > 16384][:3])
    n = len(exp)
    if exp and exp[-1] == ("either",):
        n = len(exp) - 1
        real, exp = real[:n], exp[:n]
    # a pong written during the call that ended in EOF is reported separately by the model
    exp2 = []
    pend = b""
    for o in exp:
        if o[0] == "pending-tx":
            pend = o[1]
            continue
        exp2.append(o)
    real_cmp = [o for o in real]
    if real_cmp != exp2:
        # tolerate the pending-tx bookkeeping: compare values and the concatenated wire instead
        rv = [o[:-1] if o and isinstance(o[-1], tuple) and o[-1][:1] == ("tx",) else o for o in real_cmp]
        ev = [o[:-1] if o and isinstance(o[-1], tuple) and o[-1][:1] == ("tx",) else o for o in exp2]
        etx = b"".join(o[-1][1] for o in exp2 if o and isinstance(o[-1], tuple) and o[-1][:1] == ("tx",)) + pend
        if rv != ev or wire != etx:
            return dict(kind="mismatch", real=repr(real_cmp)[:600], expected=repr(exp2)[:600], wire=wire.hex()[:200], expected_wire=etx.hex()[:200])
    return None


def chunkings(stream, rnd, with_timeouts=True):
    yield [stream]
    if len(stream) <= 4096:
        yield [stream[i:i + 1] for i in range(len(stream))]
    else:
        # long streams: single bytes through the first header and a little payload, then odd-sized blocks
        yield [stream[i:i + 1] for i in range(40)] + [stream[i:i + 4099] for i in range(40, len(stream), 4099)]
    if len(stream) > 6:
        # several short reads followed by a timeout inside one field, then the rest (retry after a multi-chunk partial read)
        a, b = rnd.randint(1, min(len(stream) - 3, 12)), rnd.randint(1, 3)
        yield [stream[:a], stream[a:a + b], stream[a + b:a + b + 1], "timeout", stream[a + b + 1:]]
    for _ in range(3):
        cuts = sorted(rnd.sample(range(1, max(2, len(stream))), min(len(stream) - 1, rnd.randint(1, 6)))) if len(stream) > 2 else []
        parts, prev = [], 0
        for cpos in cuts + [len(stream)]:
            parts.append(stream[prev:cpos])
            prev = cpos
        if with_timeouts:
            out = []
            for p in parts:
                out.append(p)
                if rnd.random() < 0.5:
                    out.append("timeout")
            parts = out
        yield parts


def gen_stream(rnd, hint=None):
    """Frame stream emphasising boundaries; hint = dict(opcode, fin, length, code ...) from a solver model."""
    frames = []
    hint = hint or {}
    special = rnd.random()
    if special < 0.08:
        # a text message whose fragments cut a code point, with control frames in between, followed by another message
        body = "aé€😀z".encode("utf-8")
        cuts = sorted(rnd.sample(range(1, len(body)), rnd.randint(1, 3)))
        parts = [body[i:j] for i, j in zip([0] + cuts, cuts + [len(body)])]
        out = b""
        for k, part in enumerate(parts):
            out += S.rfc_encode(1 if k == len(parts) - 1 else 0, 1 if k == 0 else 0, part)
            if rnd.random() < 0.5:
                out += S.rfc_encode(1, 9, bytes(rnd.randrange(256) for _ in range(rnd.choice([0, 1, 124, 125]))))
        return out + S.rfc_encode(1, 2, b"\x00\xff")
    if special < 0.12:
        # long masked frames: 16-bit lengths with and without the top bit, the 16-bit / 64-bit boundary, back to back
        out = b""
        for ln in rnd.sample([65535, 65536, 65537, 70001, 131075, 32767, 32768, 40000, 256, 65534], 2):
            key = bytes(rnd.randrange(1, 256) for _ in range(4))
            out += S.rfc_encode(1, 2, bytes((i * 7 + ln) % 251 for i in range(ln)), key)
        return out + S.rfc_encode(1, 1, b"end")
    n = rnd.randint(1, 5)
    for i in range(n):
        op = rnd.choice([0, 1, 2, 8, 9, 10, 1, 2, 0, 9, rnd.randint(0, 15)])
        fin = rnd.choice([1, 1, 0])
        ln = rnd.choice([0, 1, 2, 3, 5, 125, 126, 127, 200, rnd.randint(0, 140)])
        if i == 0:
            op, fin, ln = hint.get("opcode", op), hint.get("fin", fin), hint.get("length", ln)
        if op == 8 and ln >= 2:
            code = hint.get("code", rnd.choice([1000, 1001, 1005, 999, 3000, 4999, 5000, 1015, 2999, 1011, rnd.randint(0, 65535)]))
            body = code.to_bytes(2, "big") + rnd.choice([b"ok", b"\xe2\x82", b"\xff", "é".encode(), b""])
            payload = (body + b"x" * ln)[:max(2, ln)]
        elif op in (1, 0):
            payload = rnd.choice([b"abc", "héllo".encode(), b"\xe2\x82", b"\xac", b"\xc2", b"\xed\xa0\x80", b"", bytes(rnd.randrange(256) for _ in range(ln))])
        else:
            payload = bytes(rnd.randrange(256) for _ in range(ln))
        rsv = (0, 0, 0) if rnd.random() < 0.93 else (rnd.randint(0, 1), rnd.randint(0, 1), 1)
        key = None if rnd.random() < 0.7 else bytes(rnd.randrange(256) for _ in range(4))
        raw = S.rfc_encode(fin, op, payload, key, rsv)
        if rnd.random() < 0.1 and len(payload) <= 125:  # non-shortest length form (must be accepted)
            b1 = (0x80 if key else 0) | 126
            raw = raw[:1] + bytes([b1]) + len(payload).to_bytes(2, "big") + raw[2:]
        frames.append(raw)
    return b"".join(frames)


def boundary_streams():
    """deterministic streams at the boundaries of the frame format; tried before the random ones on every search."""
    out = []
    pat = lambda ln: bytes((i * 7 + ln) % 251 for i in range(ln))
    for ln in (125, 126, 127, 255, 256, 32767, 32768, 40000, 65535, 65536, 65537):
        out.append(S.rfc_encode(1, 2, pat(ln)) + S.rfc_encode(1, 1, b"end"))
        out.append(S.rfc_encode(1, 2, pat(ln), b"\x01\x02\x03\x04") + S.rfc_encode(1, 1, b"end"))
    for ln in (0, 1, 124, 125):
        out.append(S.rfc_encode(1, 9, pat(ln)) + S.rfc_encode(1, 10, pat(ln)) + S.rfc_encode(1, 1, b"after"))
    out.append(S.rfc_encode(0, 1, b"a\xc3") + S.rfc_encode(1, 9, b"p") + S.rfc_encode(0, 0, b"\xa9") + S.rfc_encode(1, 0, b"") + S.rfc_encode(1, 2, b"\x00"))
    out.append(S.rfc_encode(0, 2, b"") + S.rfc_encode(0, 0, b"x") + S.rfc_encode(1, 0, b"y") + S.rfc_encode(1, 8, b"\x03\xe8bye"))
    out.append(S.rfc_encode(1, 1, b"ok") + S.rfc_encode(1, 8, b"\x03\xe8") + S.rfc_encode(1, 8, b"\x03\xe9"))
    return out


def search(seed, budget, hint=None, apis=("recv", "recv_data", "recv_data_ctl", "recv_data_frame", "recv_frame")):
    rnd = random.Random(seed)
    tried = 0
    fixed = boundary_streams()
    while tried < budget or fixed:
        stream = fixed.pop(0) if fixed else gen_stream(rnd, hint)
        for api in apis:
            for fire in (False, True):
                for skip in (False, True):
                    for ch in chunkings(stream, rnd):
                        tried += 1
                        r = compare(stream, ch, api, fire, skip)
                        if r:
                            w = dict(stream=stream.hex(), chunks=[c if isinstance(c, str) else c.hex() for c in ch], api=api, fire=fire, skip=skip)
                            return dict(found=True, witness=w, detail=r, tried=tried)
    return dict(found=False, tried=tried)


def replay_witness(w):
    ch = [c if c in ("timeout", "eof") else bytes.fromhex(c) for c in w["chunks"]]
    return compare(bytes.fromhex(w["stream"]), ch, w["api"], w["fire"], w["skip"]) is not None


if __name__ == "__main__":
    r = search(int(sys.argv[1]) if len(sys.argv) > 1 else 0, int(sys.argv[2]) if len(sys.argv) > 2 else 2000)
    print(r)
