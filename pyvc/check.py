"""Check driver:  python3-vt -m pyvc.check --property C05 --tier quick|thorough [--replay file]

Exit codes: 0 every obligation discharged (bounded stand-ins clean); 1 a failed obligation / bounded
counterexample not listed in known_findings.json (prints VIOLATION lines); 2 undecided only; 3 checker error.
"""
import argparse
import hashlib
import json
import multiprocessing as mp
import os
import re
import sys
import time
import traceback

sys.dont_write_bytecode = True
ROOT = os.path.dirname(os.path.dirname(os.path.abspath(__file__)))
REPO = os.environ.get("VERIF_REPO", "/repo")
OUT = os.environ.get("VERIF_OUT", ROOT)  # where replays/ and evidence/ are written (scratch runs against seeded trees)
for p in (ROOT, REPO):
    if p not in sys.path:
        sys.path.insert(0, p)


def build_engine(tier):
    from pyvc.engine import Engine
    import contracts.registry as reg
    e = Engine(timeout_ms=10000 if tier == "quick" else 120000)
    e.tier = tier
    reg.install_all(e)
    return e, reg


_ENGINE = {}


def _worker_engine(tier):
    if tier not in _ENGINE:
        _ENGINE[tier] = build_engine(tier)
    return _ENGINE[tier]


def _run_batch(args):
    """Worker task: explore a batch of single paths (decision prefixes) of (function, case) jobs; lemmas run whole."""
    tier, items = args
    out = []
    try:
        e, reg = _worker_engine(tier)
        sent = _ENGINE.setdefault("sent", set())
        if len(e.results) > 200000:
            e.results = {}
            sent.clear()
        for (key, case, prefix) in items:
            if key.startswith("lemma:"):
                t0 = time.time()
                reg.LEMMAS[key](e)
                rep = dict(key=key, paths=0, undecided=[], cases={}, time_s=time.time() - t0, sha256=None)
                pend, exits, und = [], {}, []
            else:
                pend, exits, und, rep = e.run_one(key, case, prefix)
            res = []
            for k, r in e.results.items():
                if k in sent:
                    continue
                sent.add(k)
                r = dict(r)
                r["id"] = f"{r['fn']}/{r['name']}"
                res.append(r)
            out.append((key, case, pend, exits, und, rep, res, None))
    except Exception:
        out.append((items[0][0] if items else "?", None, [], {}, [], None, [], traceback.format_exc()))
    return out


def explore_parallel(pool, jobs, tier, nproc, max_paths=400000):
    import contracts.registry as reg
    """Level-synchronous, path-parallel exploration of all jobs: every task is one path; the alternative prefixes found along
    it go back to the common frontier."""
    import queue
    q = queue.Queue()
    fn_reports, results, errors = {}, {}, []
    npaths = 0
    outstanding = 0

    def submit(items):
        nonlocal outstanding
        outstanding += 1
        pool.apply_async(_run_batch, ((tier, items),), callback=q.put,
                         error_callback=lambda ex: q.put([("?", None, [], {}, [], None, [], repr(ex))]))
    for (k, cn) in jobs:
        submit([(k, cn, [])])
    backlog = []
    while outstanding:
        out = q.get()
        outstanding -= 1
        for (key, case, pend, exits, und, rep, res, err) in out:
            if err:
                errors.append((key, err))
                continue
            npaths += 1
            fr = fn_reports.setdefault(key, dict(key=key, sha256=rep.get("sha256"), line=rep.get("line"), cases={}, undecided=[], paths=0, time_s=0.0))
            fr["paths"] += 1
            fr["time_s"] += rep.get("time_s", 0.0)
            if case is not None:
                cs = fr["cases"].setdefault(case, dict(paths=0, exits={}))
                cs["paths"] += 1
                for k2, v2 in exits.items():
                    cs["exits"][k2] = cs["exits"].get(k2, 0) + v2
            for u in und:
                if u not in fr["undecided"]:
                    fr["undecided"].append(u)
            fr.setdefault("sites", []).extend(rep.get("sites") or [])
            for fld in ("inlined", "uses"):
                fr[fld] = sorted(set(fr.get(fld, [])) | set(rep.get(fld) or []))
            for r in res:
                results.setdefault((r["fn"], r["name"], tuple(r.get("path") or ()), r.get("line")), r)
            backlog += [(key, case, p) for p in pend]
        if npaths > max_paths:
            errors.append(("*", f"more than {max_paths} paths"))
            break
        # keep every worker busy; batch when the backlog is large to amortise task overhead
        while backlog and outstanding < nproc * 3:
            n = 1 if len(backlog) < nproc * 6 else 4
            submit(backlog[:n])
            backlog = backlog[n:]
    # a contract case none of whose paths reaches an exit is vacuous; so is a call site / loop head that is never consistent
    from pyvc.engine import vacuous_sites
    for key, fr in fn_reports.items():
        for u in vacuous_sites(fr.pop("sites", [])):
            if u not in fr["undecided"]:
                fr["undecided"].append(u)
        for cn, cs in fr["cases"].items():
            if not any(k != "(cut)" for k in cs["exits"]) and not fr["undecided"]:
                fr["undecided"].append(f"{cn}: no path reaches an exit (vacuous contract case)")
            elif "normal" not in cs["exits"] and "(cut)" not in cs["exits"] and key not in reg.NEVER_RETURNS and f"{key}/{cn}" not in reg.NEVER_RETURNS and not fr["undecided"]:
                fr["undecided"].append(f"{cn}: no path returns normally (contract case vacuous for its normal post-condition)")
    return fn_reports, list(results.values()), errors


class NativeDeadline(BaseException):
    """a native (real-code) search or replay ran past its wall-clock budget"""


def with_deadline(seconds, fn, *args):
    """Run a native search on the real code under a wall-clock budget: the code under test may loop for ever (that is what
    some violations look like).  The timer keeps firing so that a bare `except:` in the library cannot swallow it for good."""
    import signal

    def on_alarm(signum, frame):
        raise NativeDeadline(f"native search exceeded {seconds}s")
    old = signal.signal(signal.SIGALRM, on_alarm)
    signal.setitimer(signal.ITIMER_REAL, seconds, 1.0)
    try:
        return fn(*args)
    finally:
        signal.setitimer(signal.ITIMER_REAL, 0)
        signal.signal(signal.SIGALRM, old)


def load_known():
    p = os.path.join(ROOT, "known_findings.json")
    if not os.path.exists(p):
        return []
    return json.load(open(p)).get("findings", [])


def main(argv=None):
    ap = argparse.ArgumentParser()
    ap.add_argument("--property", required=True)
    ap.add_argument("--tier", default=os.environ.get("VERIF_TIER", "quick"))
    ap.add_argument("--replay")
    ap.add_argument("--jobs", type=int, default=min(16, os.cpu_count() or 4))
    ap.add_argument("--only", help="verify only function keys matching this regex (debugging)")
    ap.add_argument("--functions", help="verify these contract keys (comma separated) instead of the property's list (development aid; use with VERIF_OUT)")
    ap.add_argument("--case", help="only contract cases matching this regex (development aid)")
    ap.add_argument("-v", action="store_true")
    a = ap.parse_args(argv)
    pid, tier = a.property, a.tier if a.tier in ("quick", "thorough") else "quick"
    seed = int(os.environ.get("VERIF_SEED", "0") or 0)
    t0 = time.time()
    try:
        import contracts.registry as reg
        if a.replay:
            from harness import replay
            return replay.run_replay_file(a.replay)
        prop = reg.PROPS[pid]
        # an entry "key@@regex" restricts a function to the contract cases matching the regex; functions_thorough are added in
        # the thorough tier (whole bodies that are too expensive for the every-change check)
        keys = list(prop["functions"]) + (list(prop.get("functions_thorough", [])) if tier == "thorough" else []) + list(prop.get("lemmas", []))
        if a.functions:
            keys = a.functions.split(",")
        if a.only:
            keys = [k for k in keys if re.search(a.only, k)]
        e0, _ = build_engine(tier)
        jobs = []
        seen_jobs = set()
        for k in keys:
            k, _, case_re = k.partition("@@")
            if k.startswith("lemma:"):
                jobs.append((k, None))
            elif k not in e0.contracts:
                raise KeyError(f"no contract registered for {k}")
            else:
                for cn, _ in e0.contracts[k].cases:
                    if (a.case and not re.search(a.case, cn)) or (case_re and not re.search(case_re, cn)) or (k, cn) in seen_jobs:
                        continue
                    seen_jobs.add((k, cn))
                    jobs.append((k, cn))
        with mp.get_context("fork").Pool(a.jobs) as pool:
            fn_reports, results, errors = explore_parallel(pool, jobs, tier, a.jobs)
    except Exception:
        traceback.print_exc()
        return 3
    crashed = errors
    for k, err in crashed:
        print(f"CHECKER-ERROR in {k}:\n{err}", file=sys.stderr)
    # ---- verdicts ------------------------------------------------------------------------------
    known = [f for f in load_known() if f.get("property") == pid and f.get("status") == "known"]
    failed = [r for r in results if r["verdict"] == "failed"]
    undec = [r for r in results if r["verdict"] == "undecided"]
    fn_undec = {k: rep["undecided"] for k, rep in fn_reports.items() if rep.get("undecided")}
    discharged = [r for r in results if r["verdict"] == "discharged"]
    # bounded stand-ins and native known-finding replays
    from harness import replay
    bounded_reports, bounded_viol = [], []
    for b in prop.get("bounded", []):
        try:
            br = with_deadline(300 if tier == "quick" else 3600, b, tier, seed)
        except NativeDeadline as ex:
            print(f"CHECKER-ERROR: bounded stand-in did not finish: {ex}", file=sys.stderr)
            return 3
        except Exception:
            traceback.print_exc()
            return 3
        bounded_reports.append({k: v for k, v in br.items() if k != "violations"})
        bounded_viol.extend(br.get("violations", []))
    if tier == "thorough" and not prop.get("bounded"):
        # thorough tier: differential of the real code against the executable reference (harness/specexec.py) on generated inputs -
        # a cross-check of pyvc's encoding and of the spec functions, labelled bounded, never counted as proved
        t1 = time.time()
        try:
            r_ = with_deadline(3000, replay.concretise, pid, dict(id="cross-check", model=None), tier, seed)
        except NativeDeadline as ex:
            print(f"CHECKER-ERROR: native differential did not finish: {ex}", file=sys.stderr)
            return 3
        except Exception:
            traceback.print_exc()
            return 3
        bounded_reports.append(dict(name="native differential of the real code against the executable reference on generated inputs (cross-check)",
                                    bound=f"{r_.get('tried', '?')} generated cases, seed {seed}", labelled="bounded", wall_s=round(time.time() - t1, 2)))
        if r_.get("found"):
            bounded_viol.append(dict(check="native differential", witness_id=f"{pid}:differential", witness=r_.get("witness"), detail=r_.get("detail")))
    violations = []
    os.makedirs(os.path.join(OUT, "replays", pid), exist_ok=True)
    seen = set()
    for r in failed:
        if r["id"] in seen:
            continue
        seen.add(r["id"])
        kf = next((f for f in known if f.get("obligation") and re.search(f["obligation"], r["id"])), None)
        if kf is not None:
            continue
        conc = None
        try:
            conc = with_deadline(120 if tier == "quick" else 900, replay.concretise, pid, r, tier, seed)
        except (Exception, NativeDeadline):
            conc = dict(found=False, error=traceback.format_exc())
        fname = re.sub(r"[^A-Za-z0-9_.-]+", "_", r["id"])[:150] + ".json"
        path = os.path.join(OUT, "replays", pid, fname)
        rep = fn_reports.get(r["fn"].split("/")[0], {})
        json.dump(dict(property=pid, obligation=r["id"], function_sha256=rep.get("sha256"), line=r.get("line"),
                       solver=dict(backend=r.get("backend"), reason=r.get("reason"), model=r.get("model"), goal=r.get("goal"),
                                   note=r.get("note"), path=r.get("path")),
                       concrete=conc), open(path, "w"), indent=1, default=str)
        violations.append((path, bool(conc and conc.get("found"))))
    if fn_undec and not violations:
        # a function left the verifiable subset: its contract is undecided; a bounded native search stands in (labelled bounded).
        # Only a concrete failing input replayed on the real code turns this into a violation.
        try:
            conc = with_deadline(120 if tier == "quick" else 900, replay.concretise, pid, dict(id="undecided", model=None), tier, seed)
        except (Exception, NativeDeadline):
            conc = dict(found=False, error=traceback.format_exc())
        if conc and conc.get("found"):
            path = os.path.join(OUT, "replays", pid, "bounded_fallback_for_undecided_function.json")
            json.dump(dict(property=pid, obligation="bounded stand-in (function outside the verifiable subset: " + "; ".join(f"{k}: {u[0]}" for k, u in fn_undec.items()) + ")",
                           concrete=conc), open(path, "w"), indent=1, default=str)
            violations.append((path, True))
    for bv in bounded_viol:
        kf = next((f for f in known if f.get("witness_id") and f["witness_id"] == bv.get("witness_id")), None)
        if kf is not None:
            continue
        fname = re.sub(r"[^A-Za-z0-9_.-]+", "_", "bounded_" + bv.get("witness_id", "case"))[:150] + ".json"
        path = os.path.join(OUT, "replays", pid, fname)
        json.dump(dict(property=pid, obligation="bounded:" + bv.get("check", ""), concrete=dict(found=True, **bv)),
                  open(path, "w"), indent=1, default=str)
        violations.append((path, True))
    # known findings: replay each witness natively
    for f in known:
        still = replay.replay_known(f)
        if still:
            print(f"KNOWN-FINDING: property={pid} {f['what']}")
        else:
            print(f"NOTE: known finding no longer reproduces: {f['what']}")
    # ---- evidence ------------------------------------------------------------------------------
    known_ids = {r["id"] for r in failed if any(f.get("obligation") and re.search(f["obligation"], r["id"]) for f in known)}
    results = [r for r in results if r["id"] not in known_ids]  # carved-out obligations are reported separately, never counted
    failed = [r for r in failed if r["id"] not in known_ids]
    n_obl = len(results)
    samples = []
    for r in results[:3] + failed[:3]:
        samples.append({k: r.get(k) for k in ("id", "verdict", "backend", "time_s", "line", "goal", "model") if r.get(k) is not None})
    by_backend = {}
    for r in discharged:
        by_backend[r["backend"]] = by_backend.get(r["backend"], 0) + 1
    level = prop.get("level", "proof")
    ev = dict(
        property_id=pid, tier=tier, seed=seed, level=level,
        coverage=dict(
            obligations=n_obl, discharged=len(discharged),
            checker_cmd=f"python3-vt -m pyvc.check --property {pid} --tier {tier}",
            trusted_base=prop.get("trusted_base", []) + reg.GLOBAL_TRUSTED,
            functions=[dict(key=k, sha256=rep.get("sha256"), line=rep.get("line"), paths=rep.get("paths"),
                            cases=rep.get("cases"), time_s=round(rep.get("time_s", 0), 3),
                            inlined_bodies=rep.get("inlined", []),
                            callee_contracts_used=[u[9:] for u in rep.get("uses", []) if u.startswith("contract:")],
                            assumed_contracts_used=[u[8:] for u in rep.get("uses", []) if u.startswith("assumed:")])
                       for k, rep in fn_reports.items()],
            discharged_by_backend=by_backend,
            solver_time_s=round(sum(r.get("time_s", 0) for r in results), 3),
            failed=[r["id"] for r in failed], undecided=[r["id"] for r in undec] + [f"{k}: {u}" for k, us in fn_undec.items() for u in us],
            bounded=bounded_reports, not_decided=prop.get("not_decided", []),
            known_findings=[dict(obligation=i, what=next(f["what"] for f in known if f.get("obligation") and re.search(f["obligation"], i))) for i in sorted(known_ids)],
            samples=samples or [dict(note="no obligations")],
            explanation=prop.get("explanation", ""),
            evaluations=max(1, n_obl), distinct_nontrivial=max(2, len({r["id"] for r in results if r.get("backend") != "simplify"})),
            rule="one evaluation = one verification condition (function, contract case, path, clause) sent to the solver; "
                 "distinct = distinct clause names not closed by simplification alone",
        ),
        assumptions=prop.get("assumptions", []) + reg.assumed_contracts_used(prop),
        wall_s=round(time.time() - t0, 3), violations=len(violations),
    )
    os.makedirs(os.path.join(OUT, "evidence"), exist_ok=True)
    json.dump(ev, open(os.path.join(OUT, "evidence", f"{pid}.json"), "w"), indent=1, default=str)
    if a.v:
        for r in results:
            if r["verdict"] != "discharged":
                print(r["verdict"], r["id"], r.get("reason"), r.get("model"), r.get("note"))
        for k, us in fn_undec.items():
            print("UNDECIDED", k, us)
    print(f"{pid} [{tier}] functions={len(fn_reports)} obligations={n_obl} discharged={len(discharged)} failed={len(failed)} "
          f"undecided={len(undec) + sum(len(u) for u in fn_undec.values())} bounded={len(bounded_reports)} wall={time.time() - t0:.1f}s")
    if crashed:
        return 3
    if violations:
        for path, found in violations:
            print(f"VIOLATION property={pid} replay={path}" + ("" if found else " no-failing-input-found"))
        return 1
    if n_obl == 0 and level == "proof":
        print("no obligations were generated (vacuous run)", file=sys.stderr)
        return 3
    if undec or fn_undec:
        for k, us in fn_undec.items():
            print(f"UNDECIDED {k}: {us[:3]}", file=sys.stderr)
        for r in undec[:10]:
            print(f"UNDECIDED {r['id']}: {r.get('reason')}", file=sys.stderr)
        return 2
    return 0


if __name__ == "__main__":
    sys.exit(main())
