"""Check driver:  python3-vt -m pyvc.check --property C05 --tier quick|thorough [--replay file]

Exit codes: 0 every obligation discharged (bounded stand-ins clean); 1 a failed obligation / bounded
counterexample not listed in known_findings.json (prints VIOLATION lines); 2 undecided only; 3 checker error.
"""
import argparse
import hashlib
import json
import multiprocessing as mp
import os
import re
import sys
import time
import traceback

sys.dont_write_bytecode = True
ROOT = os.path.dirname(os.path.dirname(os.path.abspath(__file__)))
REPO = os.environ.get("VERIF_REPO", "/repo")
for p in (ROOT, REPO):
    if p not in sys.path:
        sys.path.insert(0, p)


def build_engine(tier):
    from pyvc.engine import Engine
    import contracts.registry as reg
    e = Engine(timeout_ms=10000 if tier == "quick" else 120000)
    reg.install_all(e)
    return e, reg


def _split_one(args):
    """Run the root path of a heavy (function, case) job and return the sub-tree prefixes found along it."""
    key, case, tier = args
    try:
        e, reg = build_engine(tier)
        rep = e.verify(key, only_case=case, split_only=True)
        res = []
        for k, r in e.results.items():
            r = dict(r)
            r["id"] = f"{r['fn']}/{r['name']}"
            res.append(r)
        return key, case, [list(p) for p in e.split_pending], None, rep, res
    except Exception:
        return key, case, [], traceback.format_exc(), None, []


def _verify_one(args):
    key, case, tier = args[:3]
    roots = args[3] if len(args) > 3 else None
    try:
        e, reg = build_engine(tier)
        t0 = time.time()
        if key.startswith("lemma:"):
            reg.LEMMAS[key](e)
            rep = dict(key=key, paths=0, undecided=[], cases={}, time_s=time.time() - t0, sha256=None)
        else:
            rep = e.verify(key, only_case=case, roots=roots)
        res = []
        for k, r in e.results.items():
            r = dict(r)
            r["id"] = f"{r['fn']}/{r['name']}"
            res.append(r)
        return key, rep, res, None
    except Exception:
        return key, None, [], traceback.format_exc()


def load_known():
    p = os.path.join(ROOT, "known_findings.json")
    if not os.path.exists(p):
        return []
    return json.load(open(p)).get("findings", [])


def main(argv=None):
    ap = argparse.ArgumentParser()
    ap.add_argument("--property", required=True)
    ap.add_argument("--tier", default=os.environ.get("VERIF_TIER", "quick"))
    ap.add_argument("--replay")
    ap.add_argument("--jobs", type=int, default=min(16, os.cpu_count() or 4))
    ap.add_argument("--only", help="verify only function keys matching this regex (debugging)")
    ap.add_argument("-v", action="store_true")
    a = ap.parse_args(argv)
    pid, tier = a.property, a.tier if a.tier in ("quick", "thorough") else "quick"
    seed = int(os.environ.get("VERIF_SEED", "0") or 0)
    t0 = time.time()
    try:
        import contracts.registry as reg
        if a.replay:
            from harness import replay
            return replay.run_replay_file(a.replay)
        prop = reg.PROPS[pid]
        keys = list(prop["functions"]) + list(prop.get("lemmas", []))
        if a.only:
            keys = [k for k in keys if re.search(a.only, k)]
        e0, _ = build_engine(tier)
        jobs = []
        for k in keys:
            if k.startswith("lemma:"):
                jobs.append((k, None, tier))
            elif k not in e0.contracts:
                raise KeyError(f"no contract registered for {k}")
            else:
                jobs += [(k, cn, tier) for cn, _ in e0.contracts[k].cases]
        # longest jobs first (recorded cost hints), so that the pool is balanced
        heavy = [j for j in jobs if reg.COST.get(j[0], 1) >= 50]
        light = [j for j in jobs if reg.COST.get(j[0], 1) < 50]
        with mp.get_context("fork").Pool(min(a.jobs, max(1, len(jobs)))) as pool:
            # heavy jobs are split into the sub-trees hanging off their root path (two levels), explored in parallel
            split = pool.map(_split_one, heavy, chunksize=1)
            sub, root_outs = [], []
            for (k, cn, prefixes, err, rep, res) in split:
                if err:
                    print(f"CHECKER-ERROR while splitting {k}/{cn}:\n{err}", file=sys.stderr)
                    return 3
                root_outs.append((k, rep, res, None))  # the root path itself
                sub += [(k, cn, tier, [p]) for p in prefixes]
            light.sort(key=lambda j: -reg.COST.get(j[0], 1))
            outs = root_outs + pool.map(_verify_one, sub + light, chunksize=1)
    except Exception:
        traceback.print_exc()
        return 3
    crashed = [(k, err) for k, rep, res, err in outs if err]
    for k, err in crashed:
        print(f"CHECKER-ERROR in {k}:\n{err}", file=sys.stderr)
    fn_reports, results = {}, []
    for k, rep, res, err in outs:
        if rep is not None:
            if k in fn_reports:
                old = fn_reports[k]
                old["cases"].update(rep.get("cases", {}))
                old["paths"] = old.get("paths", 0) + rep.get("paths", 0)
                old["undecided"] = old.get("undecided", []) + rep.get("undecided", [])
                old["time_s"] = old.get("time_s", 0) + rep.get("time_s", 0)
            else:
                fn_reports[k] = rep
        results.extend(res)
    uniq = {}
    for r in results:
        uniq.setdefault((r["fn"], r["name"], tuple(r.get("path") or ()), r.get("line")), r)
    results = list(uniq.values())
    # ---- verdicts ------------------------------------------------------------------------------
    known = [f for f in load_known() if f.get("property") == pid and f.get("status") == "known"]
    failed = [r for r in results if r["verdict"] == "failed"]
    undec = [r for r in results if r["verdict"] == "undecided"]
    fn_undec = {k: rep["undecided"] for k, rep in fn_reports.items() if rep.get("undecided")}
    discharged = [r for r in results if r["verdict"] == "discharged"]
    # bounded stand-ins and native known-finding replays
    from harness import replay
    bounded_reports, bounded_viol = [], []
    for b in prop.get("bounded", []):
        try:
            br = b(tier, seed)
        except Exception:
            traceback.print_exc()
            return 3
        bounded_reports.append({k: v for k, v in br.items() if k != "violations"})
        bounded_viol.extend(br.get("violations", []))
    violations = []
    os.makedirs(os.path.join(ROOT, "replays", pid), exist_ok=True)
    seen = set()
    for r in failed:
        if r["id"] in seen:
            continue
        seen.add(r["id"])
        kf = next((f for f in known if f.get("obligation") and re.search(f["obligation"], r["id"])), None)
        if kf is not None:
            continue
        conc = None
        try:
            conc = replay.concretise(pid, r, tier, seed)
        except Exception:
            conc = dict(found=False, error=traceback.format_exc())
        fname = re.sub(r"[^A-Za-z0-9_.-]+", "_", r["id"])[:150] + ".json"
        path = os.path.join(ROOT, "replays", pid, fname)
        rep = fn_reports.get(r["fn"].split("/")[0], {})
        json.dump(dict(property=pid, obligation=r["id"], function_sha256=rep.get("sha256"), line=r.get("line"),
                       solver=dict(backend=r.get("backend"), reason=r.get("reason"), model=r.get("model"), goal=r.get("goal"),
                                   note=r.get("note"), path=r.get("path")),
                       concrete=conc), open(path, "w"), indent=1, default=str)
        violations.append((path, bool(conc and conc.get("found"))))
    for bv in bounded_viol:
        kf = next((f for f in known if f.get("witness_id") and f["witness_id"] == bv.get("witness_id")), None)
        if kf is not None:
            continue
        fname = re.sub(r"[^A-Za-z0-9_.-]+", "_", "bounded_" + bv.get("witness_id", "case"))[:150] + ".json"
        path = os.path.join(ROOT, "replays", pid, fname)
        json.dump(dict(property=pid, obligation="bounded:" + bv.get("check", ""), concrete=dict(found=True, **bv)),
                  open(path, "w"), indent=1, default=str)
        violations.append((path, True))
    # known findings: replay each witness natively
    for f in known:
        still = replay.replay_known(f)
        if still:
            print(f"KNOWN-FINDING: property={pid} {f['what']}")
        else:
            print(f"NOTE: known finding no longer reproduces: {f['what']}")
    # ---- evidence ------------------------------------------------------------------------------
    n_obl = len(results)
    samples = []
    for r in results[:3] + failed[:3]:
        samples.append({k: r.get(k) for k in ("id", "verdict", "backend", "time_s", "line", "goal", "model") if r.get(k) is not None})
    by_backend = {}
    for r in discharged:
        by_backend[r["backend"]] = by_backend.get(r["backend"], 0) + 1
    level = prop.get("level", "proof")
    ev = dict(
        property_id=pid, tier=tier, seed=seed, level=level,
        coverage=dict(
            obligations=n_obl, discharged=len(discharged),
            checker_cmd=f"python3-vt -m pyvc.check --property {pid} --tier {tier}",
            trusted_base=prop.get("trusted_base", []) + reg.GLOBAL_TRUSTED,
            functions=[dict(key=k, sha256=rep.get("sha256"), line=rep.get("line"), paths=rep.get("paths"),
                            cases=rep.get("cases"), time_s=round(rep.get("time_s", 0), 3)) for k, rep in fn_reports.items()],
            discharged_by_backend=by_backend,
            solver_time_s=round(sum(r.get("time_s", 0) for r in results), 3),
            failed=[r["id"] for r in failed], undecided=[r["id"] for r in undec] + [f"{k}: {u}" for k, us in fn_undec.items() for u in us],
            bounded=bounded_reports, not_decided=prop.get("not_decided", []),
            samples=samples or [dict(note="no obligations")],
            explanation=prop.get("explanation", ""),
            evaluations=max(1, n_obl), distinct_nontrivial=max(2, len({r["id"] for r in results if r.get("backend") != "simplify"})),
            rule="one evaluation = one verification condition (function, contract case, path, clause) sent to the solver; "
                 "distinct = distinct clause names not closed by simplification alone",
        ),
        assumptions=prop.get("assumptions", []) + reg.assumed_contracts_used(prop),
        wall_s=round(time.time() - t0, 3), violations=len(violations),
    )
    os.makedirs(os.path.join(ROOT, "evidence"), exist_ok=True)
    json.dump(ev, open(os.path.join(ROOT, "evidence", f"{pid}.json"), "w"), indent=1, default=str)
    if a.v:
        for r in results:
            if r["verdict"] != "discharged":
                print(r["verdict"], r["id"], r.get("reason"), r.get("model"), r.get("note"))
        for k, us in fn_undec.items():
            print("UNDECIDED", k, us)
    print(f"{pid} [{tier}] functions={len(fn_reports)} obligations={n_obl} discharged={len(discharged)} failed={len(failed)} "
          f"undecided={len(undec) + sum(len(u) for u in fn_undec.values())} bounded={len(bounded_reports)} wall={time.time() - t0:.1f}s")
    if crashed:
        return 3
    if violations:
        for path, found in violations:
            print(f"VIOLATION property={pid} replay={path}" + ("" if found else " no-failing-input-found"))
        return 1
    if n_obl == 0 and level == "proof":
        print("no obligations were generated (vacuous run)", file=sys.stderr)
        return 3
    if undec or fn_undec:
        for k, us in fn_undec.items():
            print(f"UNDECIDED {k}: {us[:3]}", file=sys.stderr)
        for r in undec[:10]:
            print(f"UNDECIDED {r['id']}: {r.get('reason')}", file=sys.stderr)
        return 2
    return 0


if __name__ == "__main__":
    sys.exit(main())
