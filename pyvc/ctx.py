"""Per-path execution context: decisions (replayed), path condition, heap, ghost state, obligations."""
import copy
import z3
from . import smt
from .values import SV, Ref, Rope, SymSeq, Ext, ExcVal, OptV, IteV, z, tag_of


class Undecided(Exception):
    """Construct outside the subset / missing contract: the function is undecided, never a violation."""


class Impure(Exception):
    """Raised in dry-run evaluation when a test cannot be evaluated eagerly (it would fork or raise)."""


class PathEnd(Exception):
    """The current path ends here (loop iteration finished, contradictory assumption)."""


class Signal(Exception):
    pass


class PyExc(Signal):
    def __init__(self, exc):
        self.exc = exc


class Ret(Signal):
    def __init__(self, value):
        self.value = value


class Brk(Signal):
    pass


class Cont(Signal):
    pass


class Cell:
    __slots__ = ("kind", "cls", "data")

    def __init__(self, kind, cls, data):
        self.kind, self.cls, self.data = kind, cls, data

    def clone(self):
        d = self.data
        if isinstance(d, dict):
            d = dict(d)
        elif isinstance(d, list):
            d = list(d)
        return Cell(self.kind, self.cls, d)


class Snapshot:
    def __init__(self, heap, ghost):
        self.heap = {k: c.clone() for k, c in heap.items()}
        self.ghost = dict(ghost)

    def getf(self, ref, field):
        return self.heap[ref.id].data[field]

    def cell(self, ref):
        return self.heap[ref.id]


class Ctx:
    def __init__(self, engine, prefix, fn_label):
        self.engine = engine
        self.prefix = list(prefix)
        self.trace = []
        self.pending = []
        self.pc = []
        self.solver = smt.mk_solver(engine.feas_timeout_ms)
        self.heap = {}
        self.next_id = 0
        self.ghost = {}
        self.handled = []
        self.locks = []
        self.frames = []
        self.fn_label = fn_label
        self.notes = []
        self.obl_seq = {}
        self.mode = "assume"
        self.dry = False
        smt.reset_names()

    # ---- decisions -------------------------------------------------------------------------
    def feasible(self, cond):
        if cond is True:
            return True
        if cond is False:
            return False
        self.solver.push()
        self.solver.add(cond)
        r = self.solver.check()
        self.solver.pop()
        return r != z3.unsat

    def decide(self, conds):
        if self.dry:
            # eager (dry-run) evaluation must behave the same when a path is discovered and when it is replayed:
            # nothing is recorded, and anything that would really fork aborts the eager attempt
            feas = [i for i, c in enumerate(conds) if self.feasible(c)]
            if len(feas) != 1:
                raise Impure()
            if conds[feas[0]] is not True:
                self.assume(conds[feas[0]])
            return feas[0]
        idx = len(self.trace)
        if idx < len(self.prefix):
            k = self.prefix[idx]
        else:
            feas = [i for i, c in enumerate(conds) if self.feasible(c)]
            if not feas:
                raise PathEnd()
            k = feas[0]
            for j in feas[1:]:
                self.pending.append(self.trace + [j])
        self.trace.append(k)
        if conds[k] is not True:
            self.assume(conds[k])
        return k

    def branch(self, cond):
        """Python-bool view of a condition, forking the path when it is not determined."""
        if isinstance(cond, bool):
            return cond
        c = z3.simplify(cond)
        if z3.is_true(c):
            return True
        if z3.is_false(c):
            return False
        return self.decide([c, z3.Not(c)]) == 0

    def choose(self, n):
        return self.decide([True] * n)

    def assume(self, f):
        if f is True:
            return
        if f is False:
            raise PathEnd()
        self.pc.append(f)
        self.solver.add(f)

    def eq(self, a, b):
        """Sequence equality: a real equality when assumed, the pointwise (skolemisable) form when proved."""
        if self.mode == "prove":
            return smt.seq_eq(a, b)
        return a == b

    def proving(self, fn, *args):
        old = self.mode
        self.mode = "prove"
        try:
            return fn(*args)
        except (AttributeError, TypeError, KeyError, IndexError, z3.Z3Exception) as ex:
            # a contract clause is Python code over the state's representation (fields, cells, locals it names); when the code under
            # verification changed that representation the clause cannot be evaluated: the function is undecided (never a violation
            # by itself - the bounded native search decides), not a checker crash
            raise Undecided(f"the contract no longer fits the code: evaluating a clause raised {type(ex).__name__}: {str(ex)[:120]}")
        finally:
            self.mode = old

    # ---- obligations -----------------------------------------------------------------------
    def prove(self, name, goal, node=None, note=None):
        if goal is True:
            goal = z3.BoolVal(True)
        if goal is False:
            goal = z3.BoolVal(False)
        if z3.is_and(goal) and goal.num_args() > 1:
            for i, g in enumerate(goal.children()):
                self.prove(f"{name}#{i}", g, node, note)
            return
        tkey = tuple(self.trace)
        n = self.obl_seq.get((name, tkey), 0)
        self.obl_seq[(name, tkey)] = n + 1
        key = (self.fn_label, name, tkey, n)
        if key not in self.engine.results:
            g = z3.simplify(goal)
            if z3.is_true(g):
                res = dict(verdict="discharged", backend="simplify", time_s=0.0)
            else:
                res = smt.discharge(self.pc, goal, self.engine.timeout_ms)
            res["name"] = name
            res["fn"] = self.fn_label
            res["line"] = getattr(node, "lineno", None)
            res["path"] = list(tkey)
            if note:
                res["note"] = note
            if res["verdict"] != "discharged":
                res["goal"] = str(goal)[:600]
            self.engine.results[key] = res
        try:
            self.assume(goal)
        except PathEnd:
            raise

    # ---- heap ------------------------------------------------------------------------------
    def alloc(self, kind, cls, data):
        self.next_id += 1
        self.heap[self.next_id] = Cell(kind, cls, data)
        return Ref(self.next_id, kind, cls)

    def cell(self, ref):
        return self.heap[ref.id]

    def getf(self, ref, field):
        return self.heap[ref.id].data[field]

    def hasf(self, ref, field):
        return field in self.heap[ref.id].data

    def setf(self, ref, field, v):
        self.heap[ref.id].data[field] = v

    def snapshot(self):
        return Snapshot(self.heap, self.ghost)

    def new_ext(self, kind, **attrs):
        self.next_id += 1
        return Ext(kind, self.next_id, attrs)

    # ---- fresh values by shape -------------------------------------------------------------
    def fresh(self, shape, hint="v"):
        """Shapes: 'int','bool','real','bytes','str','none', ('opt',s), ('oneof',[s..]), ('tuple',[s..]),
        ('obj',clsname,{field:shape}), ('rope',), ('const',v), ('ext',kind), callable(ctx,hint)->value."""
        if callable(shape):
            return shape(self, hint)
        if shape == "int":
            return SV("int", smt.fresh(smt.Int, hint))
        if shape == "bool":
            return SV("bool", smt.fresh(smt.Bool, hint))
        if shape == "real":
            return SV("real", smt.fresh(smt.Real, hint))
        if shape == "bytes":
            return SV("bytes", smt.fresh(smt.Sq, hint))
        if shape == "bytearray":
            return SV("bytes", smt.fresh(smt.Sq, hint), "bytearray")
        if shape == "str":
            return SV("str", smt.fresh(smt.S, hint))
        if shape == "none":
            return None
        k = shape[0]
        if k == "const":
            return shape[1]
        if k == "opt":
            return OptV(smt.fresh(smt.Bool, hint + ".isnone"), self.fresh(shape[1], hint))
        if k == "opt!":
            if self.choose(2) == 0:
                return None
            return self.fresh(shape[1], hint)
        if k == "oneof":
            return self.fresh(shape[1][self.choose(len(shape[1]))], hint)
        if k == "tuple":
            return tuple(self.fresh(s, f"{hint}.{i}") for i, s in enumerate(shape[1]))
        if k == "obj":
            cls = self.engine.resolve_class(shape[1])
            data = {f: self.fresh(s, f"{hint}.{f}") for f, s in shape[2].items()}
            return self.alloc("obj", cls, data)
        if k == "rope":
            return self.alloc("list", None, Rope(smt.fresh(smt.Sq, hint)))
        if k == "list":
            return self.alloc("list", None, [self.fresh(s, f"{hint}.{i}") for i, s in enumerate(shape[1])])
        if k == "ext":
            return self.new_ext(shape[1])
        raise Undecided(f"unknown shape {shape!r}")

    def force(self, v):
        """Decide the None-ness of a lazily optional value (forks the path if it is still open)."""
        while isinstance(v, OptV):
            if isinstance(v, IteV):
                v = v.a if self.branch(v.cond) else v.b
            else:
                v = None if self.branch(v.isnone) else v.val
        return v

    def havoc_like(self, v, hint="h"):
        """Fresh value with the same tag as v (for loop targets)."""
        if isinstance(v, IteV):
            return IteV(smt.fresh(smt.Bool, hint + ".which"), self.havoc_like(v.a, hint), self.havoc_like(v.b, hint))
        if isinstance(v, OptV):
            return OptV(smt.fresh(smt.Bool, hint + ".isnone"), self.havoc_like(v.val, hint))
        if isinstance(v, Ext):
            return self.new_ext(v.kind)
        if isinstance(v, SV):
            return SV(v.tag, smt.fresh(v.t.sort(), hint), v.sub)
        t = tag_of(v)
        if t in ("int", "bool", "real", "bytes", "str"):
            return self.fresh(t, hint)
        if t == "tuple":
            return tuple(self.havoc_like(x, hint) for x in v)
        if v is None:
            return None
        raise Undecided(f"cannot havoc value of kind {t} ({hint}); give the loop a shape")
