"""Engine: contract registry, call dispatch (contract application / inlining / models), path exploration."""
import ast
import hashlib
import importlib
import sys
import time
import types

import z3

from . import smt
from .ctx import Ctx, Undecided, PathEnd, Signal, PyExc, Ret
from .interp import Interp, ModuleIndex, Frame, mk, truth, as_bytes_term, as_str_term, py_exc
from .models import Models
from . import models as M
from .values import (SV, Ref, Rope, SymSeq, Ext, ExcVal, BigInt, Closure, BoundMethod, ValMethod, Opaque, OptV, IteV,
                     z, tag_of, concrete)

PKG = "websocket"


class Contract:
    """Sidecar contract of one real function (DESIGN.md 2.4).  All clause functions take the context `c`;
    `old` is a Snapshot; `a` is the dict of bound arguments."""

    def __init__(self, key, params=None, cases=None, requires=None, ensures=None, raises=None, modifies=None,
                 havoc=None, result=None, assumed=False, props=(), closure_of=None, doc="", pure=False,
                 inline_at_calls=False, normal_when=None, ghost_entry=None):
        self.key, self.params = key, params
        self.cases = cases or []
        self.requires = requires or (lambda c, a: True)
        self.ensures = ensures or (lambda c, old, a, res: True)
        self.raises = raises or []  # list of (ExcClass, when(c, old, a) | None, post(c, old, a, exc) | None)
        self.modifies = modifies or (lambda c, a: [])
        self.havoc = havoc
        self.result = result or (lambda c, a: None)
        self.assumed, self.props, self.closure_of, self.doc, self.pure = assumed, tuple(props), closure_of, doc, pure
        self.inline_at_calls, self.normal_when = inline_at_calls, normal_when
        self.ghost_entry = ghost_entry  # ghost statements executed at function entry when the body is verified


class Engine:
    def __init__(self, timeout_ms=10000, feas_timeout_ms=1500, max_paths=40000):
        self.timeout_ms, self.feas_timeout_ms, self.max_paths = timeout_ms, feas_timeout_ms, max_paths
        self.contracts = {}
        self.loop_specs = {}
        self.inline_never = set()
        self.global_overrides = {}
        self.lock_hooks = {}
        self.comprehension_hooks = {}
        self.results = {}
        self.fn_reports = {}
        self.indexes = {}
        self.interp = Interp(self)
        self.models = Models(self)
        self.class_alias = {}
        self.ext_attr_hooks = {}
        self.method_models = {}
        self.current_target = None
        self.str_to_int_hook = None
        self.call_site_vacuity = True
        self.site_stats = {}
        self.before_call = {}  # (caller qualname, callee name) -> ghost assertion fn(c, frame, args) made before the call
        self.after_call = {}  # (caller qualname, callee name) -> ghost statement fn(c, frame, result)
        self.lazy_ext_kinds = set()  # external kinds whose methods only record their (lazily optional) arguments
        self.split_hooks = {}  # function qualname -> model of str.split inside that function
        self.tier = "quick"
        self.cut_continue = {}  # cut_calls entries that only assert the entry state and then go on with the callee's contract
        self.cut_calls = {}  # (caller qualname, callee qualname) -> extra requires; the path ends after the call's requires
        self.inlined_now = set()  # real functions without a contract of their own whose bodies were executed inside the target
        self.used_now = set()  # contracts used at call sites of the target (verified elsewhere or assumed)

    # ------------------------------------------------------------------ registry
    def add(self, contract):
        self.contracts[contract.key] = contract
        return contract

    def loop(self, qual, ordinal, **spec):
        self.loop_specs[(qual, ordinal)] = spec

    def index(self, module):
        if module.__name__ not in self.indexes:
            self.indexes[module.__name__] = ModuleIndex(module)
        return self.indexes[module.__name__]

    def resolve_class(self, name):
        if isinstance(name, type):
            return name
        if name in self.class_alias:
            return self.class_alias[name]
        modname, _, cls = name.rpartition(".")
        m = importlib.import_module(modname)
        return getattr(m, cls)

    def func_key(self, f):
        return f"{f.__module__}:{f.__qualname__}"

    def find_def(self, f):
        mod = sys.modules[f.__module__]
        idx = self.index(mod)
        node = idx.find(f.__qualname__, f.__code__.co_firstlineno)
        if node is None:
            raise Undecided(f"source of {self.func_key(f)} not found")
        return node, mod

    # ------------------------------------------------------------------ calls
    def dispatch_call(self, c, fn, args, kwargs, node):
        if self.before_call and c.frames and not c.dry:
            nm = getattr(fn, "name", None) or getattr(fn, "__name__", None) or getattr(getattr(fn, "node", None), "name", None)
            h = self.before_call.get((c.frames[-1].qual, nm))
            if h is None and node is not None and hasattr(node, "func"):
                syn = getattr(node.func, "id", None) or getattr(node.func, "attr", None)
                h = self.before_call.get((c.frames[-1].qual, syn))
            if h:
                c.last_call_node = node
                h(c, c.frames[-1], args)
        r = self._dispatch_call(c, fn, args, kwargs, node)
        if self.after_call and c.frames:
            nm = getattr(fn, "name", None) or getattr(fn, "__name__", None) or getattr(getattr(fn, "node", None), "name", None)
            h = self.after_call.get((c.frames[-1].qual, nm))
            if h is None and node is not None and hasattr(node, "func"):
                syn = getattr(node.func, "id", None) or getattr(node.func, "attr", None)
                h = self.after_call.get((c.frames[-1].qual, syn))
            if h:
                c.last_call_node = node
                h(c, c.frames[-1], r)
        return r

    def _dispatch_call(self, c, fn, args, kwargs, node):
        I = self.interp
        fn = c.force(fn)
        lazy = isinstance(fn, BoundMethod) and isinstance(fn.func, str) and isinstance(fn.self_, Ext) and fn.self_.kind in self.lazy_ext_kinds
        if not lazy:
            args = [c.force(x) for x in args]
            kwargs = {k: (c.force(v) if k != "$starstar" else v) for k, v in kwargs.items()}
        if isinstance(fn, Closure):
            key = f"{fn.frame.module.__name__}:{fn.qual}"
            ct = self.contracts.get(key)
            cut = self.cut_calls.get((c.frames[-1].qual if c.frames else None, fn.qual))
            if ct is not None and cut is not None:
                bound = I.bind_args(c, fn.node, args, dict(kwargs), lambda d: self._default(c, d, fn.frame), fn.qual)
                bound["$closure"] = fn.frame
                c.prove(f"call:{fn.qual.split('.')[-1]}.requires", c.proving(ct.requires, c, bound), node)
                c.prove(f"call:{fn.qual.split('.')[-1]}.entry-state", c.proving(cut, c, bound), node)
                self.cut_reached = getattr(self, "cut_reached", 0) + 1
                cont = self.cut_continue.get((c.frames[-1].qual, fn.qual))
                if cont is None or not cont(self, c):
                    raise PathEnd()
                return self.apply(c, ct, bound, node)
            if ct is not None and key != self.current_target:
                bound = I.bind_args(c, fn.node, args, dict(kwargs), lambda d: self._default(c, d, fn.frame), fn.qual)
                bound["$closure"] = fn.frame
                return self.apply(c, ct, bound, node)
            bound = I.bind_args(c, fn.node, args, dict(kwargs), lambda d: self._default(c, d, fn.frame), fn.qual)
            if key != self.current_target:
                self.inlined_now.add(key)
            return I.run_function(c, fn.node, fn.frame.module, bound, fn.qual, parent=fn.frame)
        if isinstance(fn, BoundMethod):
            if isinstance(fn.func, str):  # external method
                return self.call_ext(c, fn.self_, fn.func, args, kwargs, node)
            return self._dispatch_call(c, fn.func, [fn.self_] + list(args), kwargs, node)
        if isinstance(fn, ValMethod):
            return self.call_value_method(c, fn.val, fn.name, args, kwargs, node)
        if isinstance(fn, Ext):
            return self.call_ext(c, fn, "__call__", args, kwargs, node)
        if isinstance(fn, types.FunctionType):
            key = self.func_key(fn)
            ct = self.contracts.get(key)
            if ct is not None and ct.inline_at_calls:
                ct = None
            if ct is not None and key != self.current_target:
                fnode, mod = self.find_def(fn) if fn.__module__.startswith(PKG) else (None, None)
                if fnode is not None:
                    bound = I.bind_args(c, fnode, args, dict(kwargs), lambda d: self._default_real(c, d, fn, fnode), fn.__qualname__)
                else:
                    bound = {"$args": args, "$kwargs": kwargs}
                return self.apply(c, ct, bound, node)
            if fn in self.models.call_table:
                return self.models.call_table[fn](c, args, kwargs, node)
            if fn.__module__ and fn.__module__.startswith(PKG) and key not in self.inline_never:
                fnode, mod = self.find_def(fn)
                bound = I.bind_args(c, fnode, args, dict(kwargs), lambda d: self._default_real(c, d, fn, fnode), fn.__qualname__)
                if key != self.current_target:
                    self.inlined_now.add(key)
                return I.run_function(c, fnode, mod, bound, fn.__qualname__)
            raise Undecided(f"call to {key} has neither contract nor model (line {getattr(node, 'lineno', '?')})")
        if isinstance(fn, type):
            return self.instantiate(c, fn, args, kwargs, node)
        try:
            h = fn in self.models.call_table
        except TypeError:
            h = False
        if h:
            return self.models.call_table[fn](c, args, kwargs, node)
        if isinstance(fn, types.MethodType):
            # bound method of a real object (e.g. os.environ.get)
            key = f"real:{type(fn.__self__).__name__}.{fn.__name__}"
            ct = self.contracts.get(key)
            if ct is not None:
                return self.apply(c, ct, {"$args": args, "$kwargs": kwargs}, node)
        if fn is None:
            raise py_exc(TypeError, "'NoneType' object is not callable")
        name = getattr(fn, "__qualname__", None) or getattr(fn, "__name__", repr(fn))
        mod = getattr(fn, "__module__", "")
        key = f"{mod}:{name}"
        ct = self.contracts.get(key)
        if ct is not None:
            return self.apply(c, ct, {"$args": args, "$kwargs": kwargs}, node)
        raise Undecided(f"call to {key} not modelled (line {getattr(node, 'lineno', '?')})")

    def _default(self, c, dnode, frame):
        c.frames.append(frame)
        try:
            return self.interp.ev(c, dnode)
        finally:
            c.frames.pop()

    def _default_real(self, c, dnode, fn, fnode):
        mod = sys.modules[fn.__module__]
        c.frames.append(Frame("<defaults>", mod, {}, None, None))
        try:
            return self.interp.ev(c, dnode)
        finally:
            c.frames.pop()

    def instantiate(self, c, cls, args, kwargs, node):
        if issubclass(cls, BaseException):
            attrs = {}
            if cls.__module__.startswith(PKG) and "__init__" in cls.__dict__:
                # WebSocketBadStatusException: keep attribute values
                names = list(cls.__init__.__code__.co_varnames[1:cls.__init__.__code__.co_argcount])
                for n_, v in zip(names, args):
                    attrs[n_] = v
            return ExcVal(cls, args, attrs)
        key = f"new:{cls.__module__}.{cls.__qualname__}"
        ct = self.contracts.get(key)
        if ct is not None:
            return self.apply(c, ct, {"$args": args, "$kwargs": kwargs}, node)
        if cls in self.models.call_table:
            return self.models.call_table[cls](c, args, kwargs, node)
        if cls.__module__.startswith(PKG):
            obj = c.alloc("obj", cls, {})
            init = None
            for k in cls.__mro__:
                if "__init__" in k.__dict__ and k is not object:
                    init = k.__dict__["__init__"]
                    break
            if init is not None:
                self.dispatch_call(c, init, [obj] + list(args), kwargs, node)
            return obj
        raise Undecided(f"instantiation of {cls.__module__}.{cls.__qualname__} not modelled")

    def apply(self, c, ct, a, node):
        """Use of a contract at a call site: prove requires, havoc the frame, assume one outcome's post."""
        line = getattr(node, "lineno", "?")
        short = ct.key.split(":")[-1]
        self.used_now.add(("assumed:" if ct.assumed else "contract:") + ct.key)
        req = c.proving(ct.requires, c, a)
        if req is not True:
            c.prove(f"call:{short}.requires", req, node)
        old = c.snapshot()
        conds = [True]
        for (cls, when, post) in ct.raises:
            w = when(c, old, a) if when else True
            conds.append(w if isinstance(w, bool) else z3.simplify(w))
        nw = getattr(ct, "normal_when", None)
        if nw is not None:
            conds[0] = nw(c, old, a)
        k = c.decide(conds)
        if ct.havoc is not None:
            ct.havoc(c, a, old, k)
        else:
            for m in ct.modifies(c, a):
                self.havoc_loc(c, m)
        if k == 0:
            res = ct.result(c, a)
            post = ct.ensures(c, old, a, res)
            if post is False or (z3.is_expr(post) and z3.is_false(z3.simplify(post))):
                # a post-condition that is literally false at a call site would silently cut the caller's path (vacuity)
                raise Undecided(f"contract of {short} yields `false` when used at a call site (line {line})")
            c.assume(post)
            variant = f" with result {res!r}" if res is None or isinstance(res, (bool, int, str)) else ""
            self.site_check(c, f"normal return of {short}{variant} (line {line})")
            return res
        cls, when, post = ct.raises[k - 1]
        exc = ExcVal(cls, ())
        if post is not None:
            r = post(c, old, a, exc)
            if isinstance(r, ExcVal):
                exc = r
            else:
                c.assume(r)
                self.site_check(c, f"{cls.__name__} out of {short} (line {line})", flag=False)
        raise PyExc(exc)

    def site_check(self, c, site, flag=True):
        """Vacuity guard (DESIGN 2.15): after assumptions that come from a contract, an invariant or a precondition the path must
        still be satisfiable.  An inconsistent path is pruned (sound: it denotes no execution); a site that is inconsistent on
        every path through it is reported, because everything after it would be proved vacuously."""
        if not self.call_site_vacuity or c.dry:
            return
        st = self.site_stats.setdefault((c.fn_label, site, flag), [0, 0])
        st[0] += 1
        if c.solver.check() == z3.unsat:
            raise PathEnd()
        st[1] += 1

    def havoc_loc(self, c, m):
        if isinstance(m, tuple) and isinstance(m[0], Ref):
            ref, f = m[0], m[1]
            shape = m[2] if len(m) > 2 else None
            cur = c.getf(ref, f) if c.hasf(ref, f) else None
            c.setf(ref, f, c.fresh(shape, f) if shape is not None else c.havoc_like(cur, f))
        elif isinstance(m, str) and m.startswith("ghost:"):
            g = m[6:]
            c.ghost[g] = c.havoc_like(c.ghost[g], g)
        elif isinstance(m, tuple) and m[0] == "ghost":
            c.ghost[m[1]] = c.fresh(m[2], m[1])
        else:
            raise Undecided(f"cannot havoc {m!r}")

    # ------------------------------------------------------------------ externals
    def call_ext(self, c, obj, meth, args, kwargs, node):
        if not isinstance(obj, Ext):
            raise Undecided(f"external call on {tag_of(obj)}")
        key = f"ext:{obj.kind}.{meth}"
        ct = self.contracts.get(key)
        if ct is None:
            raise Undecided(f"no assumed contract for {key} (line {getattr(node, 'lineno', '?')})")
        return self.apply(c, ct, {"self": obj, "$args": list(args), "$kwargs": kwargs}, node)

    def ext_getattr(self, c, obj, attr, node):
        if attr in obj.attrs:
            return obj.attrs[attr]
        if f"ext:{obj.kind}.{attr}" in self.contracts:
            return BoundMethod(obj, attr, attr)
        h = self.ext_attr_hooks.get(obj.kind)
        if h:
            return h(c, obj, attr, node)
        raise Undecided(f"attribute {attr} of external {obj.kind} (line {getattr(node, 'lineno', '?')})")

    def ext_setattr(self, c, obj, attr, v, node):
        obj.attrs[attr] = v
        h = self.ext_attr_hooks.get(obj.kind + ".set")
        if h:
            h(c, obj, attr, v, node)

    def ext_hasattr(self, c, obj, name):
        return name in obj.attrs or f"ext:{obj.kind}.{name}" in self.contracts

    def ext_isinstance(self, c, obj, cls):
        classes = obj.attrs.get("$isinstance")
        if classes is None:
            return None
        return any(issubclass(k, cls) for k in classes)

    def chr_term(self, t):
        f = z3.Function("chr", smt.Int, smt.S)
        return f(t)

    def str_to_int(self, c, v, node):
        if isinstance(v, str):
            try:
                return int(v)
            except ValueError:
                raise py_exc(ValueError, "invalid literal for int()")
        if self.str_to_int_hook:
            return self.str_to_int_hook(c, v, node)
        # int(s): succeeds iff s is a decimal numeral (the optional sign / whitespace / underscores
        # python also accepts are folded into the uninterpreted predicate int_ok)
        ok = M_int_ok(v.t)
        if not c.branch(ok):
            raise py_exc(ValueError, "invalid literal for int()")
        return mk("int", M_int_val(v.t))

    def symdict_store(self, c, obj, idx, v, node):
        """d[k] = v with a symbolic str key: the dict becomes an abstract map (z3 arrays key -> value, key -> present)."""
        cell = c.cell(obj)
        self.to_symmap(c, cell)
        if tag_of(idx) != "str" or tag_of(v) != "str":
            raise Undecided("abstract dict supports str keys and str values only")
        d = cell.data
        d["$map"] = z3.Store(d["$map"], z(idx), z(v))
        d["$dom"] = z3.Store(d["$dom"], z(idx), z3.BoolVal(True))

    def to_symmap(self, c, cell):
        d = cell.data
        if "$map" in d:
            return
        m = z3.K(smt.S, z3.StringVal(""))
        dom = z3.K(smt.S, z3.BoolVal(False))
        for k, (p, v) in d.items():
            if not isinstance(k, str) or p is not True or tag_of(v) != "str":
                raise Undecided("cannot turn this dict into an abstract map")
            m = z3.Store(m, z3.StringVal(k), z(v))
            dom = z3.Store(dom, z3.StringVal(k), z3.BoolVal(True))
        cell.data = {"$map": m, "$dom": dom}

    def symmap_get(self, c, cell, key):
        d = cell.data
        kz = z(key)
        return z3.Select(d["$dom"], kz), SV("str", z3.Select(d["$map"], kz))

    # ------------------------------------------------------------------ methods of values
    def call_value_method(self, c, val, name, args, kwargs, node):
        h = self.method_models.get((tag_of(val), name))
        if h:
            return h(c, val, args, kwargs, node)
        tg = tag_of(val)
        if isinstance(val, dict) and name in ("items", "keys", "values", "get"):
            R = self.interp.reflect
            if name == "items":
                return tuple((k, R(v)) for k, v in val.items())
            if name == "keys":
                return tuple(val.keys())
            if name == "values":
                return tuple(R(v) for v in val.values())
            ok, k = concrete(args[0])
            if ok:
                return R(val.get(k, args[1] if len(args) > 1 else None))
        if isinstance(val, Ref):
            cell = c.cell(val)
            if cell.kind == "list":
                return self.list_method(c, val, cell, name, args, node)
            if cell.kind == "dict":
                return self.dict_method(c, val, cell, name, args, kwargs, node)
        if isinstance(val, BigInt):
            if name == "to_bytes" and val.xor_with is not None:
                n_, order = args[0], args[1] if len(args) > 1 else kwargs.get("byteorder")
                if order != val.order:
                    raise Undecided("to_bytes with a different byte order")
                a_, b_ = val.seq, val.xor_with
                nt = z(n_, "int")
                # A-INTXOR (DESIGN 2.3): digit-wise xor in base 256 for operands of equal length n
                c.prove("A-INTXOR.pre", z3.And(smt.slen(a_) == nt, smt.slen(b_) == nt), node)
                r = smt.fresh(smt.Sq, "xored")
                i = z3.Int("i!x")
                c.assume(smt.slen(r) == nt)
                c.assume(z3.ForAll([i], z3.Implies(z3.And(0 <= i, i < nt), smt.at(r, i) == smt.bxor(smt.at(a_, i), smt.at(b_, i))),
                                   patterns=[smt.at(r, i)]))
                return SV("bytes", r)
            raise Undecided(f"method {name} of int.from_bytes() result")
        if tg == "bytes":
            return self.bytes_method(c, val, name, args, kwargs, node)
        if tg == "str":
            return self.str_method(c, val, name, args, kwargs, node)
        raise Undecided(f"method {name} of {tg} (line {getattr(node, 'lineno', '?')})")

    def list_method(self, c, ref, cell, name, args, node):
        d = cell.data
        if name == "append":
            if isinstance(d, Rope):
                cell.data = Rope(smt.cat(d.joined, as_bytes_term(args[0])))
            elif isinstance(d, list):
                d.append(args[0])
            else:
                raise Undecided("append to abstract sequence")
            return None
        if name == "extend" and isinstance(d, list):
            d.extend(self.interp.iterate(c, args[0], node))
            return None
        raise Undecided(f"list.{name}")

    def dict_method(self, c, ref, cell, name, args, kwargs, node):
        d = cell.data
        if "$map" in d:
            if name == "get" and tag_of(args[0]) == "str":
                present, val = self.symmap_get(c, cell, args[0])
                default = args[1] if len(args) > 1 else None
                if default is None:
                    return OptV(z3.simplify(z3.Not(present)), val)
                if tag_of(default) == "str":
                    return SV("str", z3.If(present, val.t, z(default)))
            raise Undecided(f"abstract dict .{name}")
        if name in ("get", "pop"):
            ok, k = concrete(args[0])
            if not ok:
                raise Undecided(f"dict.{name} with symbolic key")
            default = args[1] if len(args) > 1 else None
            ent = d.get(k)
            if ent is None:
                if name == "pop" and len(args) < 2:
                    raise py_exc(KeyError, k)
                return default
            p, v = ent
            if name == "get" and p is not True:
                return IteV(p, v, default)  # decided only when the value is inspected
            if p is True or c.branch(p):
                if name == "pop":
                    del d[k]
                return v
            if name == "pop":
                del d[k]
                if len(args) < 2:
                    raise py_exc(KeyError, k)
            return default
        if name == "items":
            return tuple((k, d[k][1]) for k in self.interp.dict_keys(c, ref))
        if name == "keys":
            return tuple(self.interp.dict_keys(c, ref))
        if name == "values":
            return tuple(d[k][1] for k in self.interp.dict_keys(c, ref))
        if name == "update":
            o = args[0]
            if isinstance(o, Ref) and c.cell(o).kind == "dict":
                for k, (p, v) in list(c.cell(o).data.items()):
                    if p is True:
                        d[k] = (True, v)
                    elif k in d:
                        p0, v0 = d[k]
                        d[k] = (z3.Or(p, p0) if p0 is not True else True, IteV(p, v, v0))
                    else:
                        d[k] = (p, v)
                return None
        if name == "setdefault":
            ok, k = concrete(args[0])
            ent = d.get(k) if ok else None
            if ok and (ent is None or (ent[0] is not True and not c.branch(ent[0]))):
                d[k] = (True, args[1] if len(args) > 1 else None)
            return d[k][1]
        raise Undecided(f"dict.{name}")

    def bytes_method(self, c, val, name, args, kwargs, node):
        if name == "decode":
            enc = args[0] if args else kwargs.get("encoding", "utf-8")
            if enc not in ("utf-8", "utf8"):
                raise Undecided(f"decode({enc!r})")
            if not isinstance(val, SV):
                try:
                    return bytes(val).decode("utf-8")
                except UnicodeDecodeError:
                    raise py_exc(UnicodeDecodeError)
            errors = args[1] if len(args) > 1 else kwargs.get("errors", "strict")
            if errors in ("replace", "ignore"):
                # never raises; equals the strict decoding on well-formed input, unspecified otherwise
                if c.branch(smt.wf_utf8(val.t)):
                    return SV("str", smt.utf8_dec(val.t))
                return SV("str", smt.fresh(smt.S, "lossy"))
            if errors != "strict":
                raise Undecided(f"decode(errors={errors!r})")
            if not c.branch(smt.wf_utf8(val.t)):
                raise py_exc(UnicodeDecodeError)
            return SV("str", smt.utf8_dec(val.t))
        if name == "join":
            seq = args[0]
            if isinstance(seq, Ref):
                d = c.cell(seq).data
                if isinstance(d, Rope):
                    if not (isinstance(val, (bytes, bytearray)) and len(val) == 0):
                        raise Undecided("non-empty separator join on rope")
                    return mk("bytes", d.joined)
                items = list(d)
            else:
                items = self.interp.iterate(c, seq, node)
            if not (isinstance(val, (bytes, bytearray)) and len(val) == 0):
                raise Undecided("bytes.join with separator")
            return mk("bytes", smt.cat_all([as_bytes_term(x) for x in items]))
        if name == "strip" and not args:
            return mk("bytes", M.bytes_strip(as_bytes_term(val)))
        if name == "lower" and not args:
            return mk("bytes", M.bytes_lower(as_bytes_term(val)))
        raise Undecided(f"bytes.{name}")

    def str_method(self, c, val, name, args, kwargs, node):
        if not isinstance(val, SV) and all(not isinstance(x, (SV, Ref, Opaque)) for x in args) and name in (
                "lower", "upper", "strip", "lstrip", "rstrip", "startswith", "endswith", "replace", "split", "encode"):
            try:
                r = getattr(val, name)(*args, **kwargs)
            except UnicodeEncodeError:
                raise py_exc(UnicodeEncodeError)
            if isinstance(r, list):
                return c.alloc("list", None, r)
            return r
        if name == "encode":
            enc = args[0] if args else kwargs.get("encoding", "utf-8")
            t = as_str_term(val)
            if enc == "latin-1":
                sub = getattr(val, "sub", None)
                if isinstance(sub, tuple) and sub[0] == "chr":
                    n_ = sub[1]
                    if not c.branch(n_ < 256):
                        raise py_exc(UnicodeEncodeError)
                    return mk("bytes", smt.unit(n_))
                if not c.branch(M.latin1_ok(t)):
                    raise py_exc(UnicodeEncodeError)
                return SV("bytes", M.latin1_enc(t))
            if enc in ("utf-8", "utf8"):
                if not c.branch(M.utf8_encodable(t)):
                    raise py_exc(UnicodeEncodeError)
                return SV("bytes", smt.utf8_enc(t))
            raise Undecided(f"encode({enc!r})")
        if name == "join" and isinstance(args[0], Ref) and isinstance(c.cell(args[0]).data, SymSeq):
            # join of an abstract list of strings: an unspecified string (only its identity matters to the callers under contract)
            r = SV("str", smt.fresh(smt.S, "joined"))
            c.ghost["$joined"] = r
            return r
        if name == "join":
            items = self.interp.iterate(c, args[0], node)
            parts = []
            for i, x in enumerate(items):
                if tag_of(x) != "str":
                    raise py_exc(TypeError, "sequence item: expected str instance")
                if i:
                    parts.append(val)
                parts.append(x)
            return self.models.str_concat(c, parts) if parts else ""
        if name in ("startswith", "endswith"):
            f = z3.PrefixOf if name == "startswith" else z3.SuffixOf
            return mk("bool", f(as_str_term(args[0]), as_str_term(val)))
        if name == "split" and args and isinstance(args[0], str) and len(args[0]) >= 1:
            return self.str_split(c, val, args[0], args[1] if len(args) > 1 else kwargs.get("maxsplit", -1), node)
        if name == "lstrip" and len(args) == 1 and isinstance(args[0], str) and len(args[0]) == 1:
            t = as_str_term(val)
            r = M.str_lstrip1(t, z3.StringVal(args[0]))
            # facts: val = k copies of the character followed by r, and r does not start with it
            c.assume(z3.SuffixOf(r, t))
            c.assume(z3.Not(z3.PrefixOf(z3.StringVal(args[0]), r)))
            c.assume(z3.Implies(z3.Not(z3.PrefixOf(z3.StringVal(args[0]), t)), r == t))
            return mk("str", r)
        if name == "replace" and len(args) == 2 and all(isinstance(x, str) for x in args):
            return mk("str", M.str_replace_all(as_str_term(val), z3.StringVal(args[0]), z3.StringVal(args[1])))
        if name == "isdigit" and not args:
            # str.isdigit() also accepts characters int() refuses (superscripts such as '\u00b2'): it does NOT imply that int() succeeds
            t = as_str_term(val)
            r = M.str_isdigit(t)
            c.assume(z3.Implies(r, z3.Length(t) > 0))
            return mk("bool", r)
        if name == "isdecimal" and not args:
            # every character is a Unicode decimal digit (category Nd) and the string is not empty: exactly what int() accepts
            # without sign and white space
            t = as_str_term(val)
            r = M.str_isdecimal(t)
            c.assume(z3.Implies(r, z3.And(M_int_ok(t), M_int_val(t) >= 0, z3.Length(t) > 0, M.str_isdigit(t))))
            return mk("bool", r)
        if name == "lower":
            t = as_str_term(val)
            r = M.str_lower(t)
            # A-LOWER: str.lower() is idempotent and leaves a leading '.' in place (checked natively over all code points)
            c.assume(z3.And(M.str_lower(r) == r, z3.PrefixOf(z3.StringVal("."), t) == z3.PrefixOf(z3.StringVal("."), r),
                            (z3.Length(t) == 0) == (z3.Length(r) == 0)))
            return mk("str", r)
        if name == "strip" and not args:
            return mk("str", M.str_strip(as_str_term(val)))
        raise Undecided(f"str.{name} on symbolic string (line {getattr(node, 'lineno', '?')})")

    def str_split(self, c, val, sep, maxsplit, node):
        """s.split(sep[, maxsplit]) on a symbolic string: the number of parts is decided by forking on the occurrences of sep
        (up to 3 parts are built exactly; more parts are represented by their count only)."""
        t = as_str_term(val)
        sepv = z3.StringVal(sep)
        hook = self.split_hooks.get(c.frames[-1].qual) if c.frames else None
        if hook is not None:
            r = hook(c, val, sep, maxsplit, node)
            if r is not None:
                return r
        ok, ms = concrete(maxsplit)
        if not ok:
            raise Undecided("split with symbolic maxsplit")
        parts, rest = [], t
        limit = ms if ms is not None and ms >= 0 else 3
        while len(parts) < limit:
            if not c.branch(z3.Contains(rest, sepv)):
                break
            i = z3.IndexOf(rest, sepv, 0)
            parts.append(mk("str", z3.SubString(rest, 0, i)))
            rest = z3.SubString(rest, i + len(sep), z3.Length(rest) - i - len(sep))
        if (ms is None or ms < 0) and len(parts) == limit and c.branch(z3.Contains(rest, sepv)):
            # more than `limit`+1 parts: only the count is represented
            n = smt.fresh(smt.Int, "nparts")
            c.assume(n > limit + 1)
            return c.alloc("list", None, SymSeq(SV("int", n), lambda c_, i_: SV("str", smt.fresh(smt.S, "part")), "split"))
        parts.append(mk("str", rest))
        return c.alloc("list", None, parts)

    # ------------------------------------------------------------------ verification of one function
    def explore(self, label, run_path, roots=None, split_only=False):
        """Depth-first exploration of all decision prefixes below `roots` (default: the whole tree).
        split_only: run just the root path and hand back the alternative prefixes found along it (for parallel splitting)."""
        stack = [list(r) for r in (roots if roots is not None else [[]])]
        npaths = 0
        undecided = []
        exits = {}
        self.split_pending = []
        while stack:
            prefix = stack.pop()
            c = Ctx(self, prefix, label)
            try:
                kind = run_path(c)
                exits[kind] = exits.get(kind, 0) + 1
            except PathEnd:
                exits["(cut)"] = exits.get("(cut)", 0) + 1
            except Undecided as u:
                undecided.append(str(u))
            except RecursionError:
                undecided.append("recursion limit")
            if split_only:
                self.split_pending = list(c.pending)
                npaths += 1
                break
            stack.extend(c.pending)
            npaths += 1
            if npaths > self.max_paths:
                undecided.append(f"more than {self.max_paths} paths")
                break
        return npaths, undecided, exits

    def verify(self, key, fn=None, closure_env=None, only_case=None, roots=None, split_only=False):
        """Check the body of the real function `key` against its contract, all cases, all paths."""
        ct = self.contracts[key]
        modname, qual = key.split(":")
        mod = importlib.import_module(modname)
        idx = self.index(mod)
        if fn is not None:
            fnode = idx.find(qual, fn.__code__.co_firstlineno)
        else:
            fnode = idx.find(qual)
        if fnode is None:
            self.fn_reports[key] = dict(status="undecided", reason=f"function {qual} not found in {idx.path}")
            return self.fn_reports[key]
        src = idx.segment(fnode)
        rep = dict(key=key, sha256=hashlib.sha256(src.encode()).hexdigest(), line=fnode.lineno, cases={},
                   undecided=[], paths=0)
        t0 = time.time()
        prev = self.current_target
        for case_name, setup in ct.cases:
            if only_case is not None and case_name != only_case:
                continue
            label = f"{key}/{case_name}"

            def run_path(c, setup=setup):
                self.current_target = key
                a = setup(c)
                parent = a.get("$closure", None)
                pframe = None
                if parent is not None:
                    pframe = Frame(qual.rsplit(".<locals>.", 1)[0], mod, parent, None, None)
                c.assume(ct.requires(c, a))
                self.site_check(c, "function entry (case set-up and precondition)")
                old = c.snapshot()
                if ct.ghost_entry:
                    ct.ghost_entry(c, a)
                bound = {k: v for k, v in a.items() if not k.startswith("$")}
                try:
                    kwname = fnode.args.kwarg.arg if fnode.args.kwarg else None
                    extra_kw = bound.pop(kwname, None) if kwname else None
                    vaname = fnode.args.vararg.arg if fnode.args.vararg else None
                    extra_va = bound.pop(vaname, None) if vaname else None
                    dframe = pframe or Frame("<defaults>", mod, {}, None, None)
                    bound = self.interp.bind_args(c, fnode, [], dict(bound), lambda d: self._default(c, d, dframe), qual)
                    if extra_kw is not None:
                        bound[kwname] = extra_kw
                    if extra_va is not None:
                        bound[vaname] = extra_va
                    res = self.interp.run_function(c, fnode, mod, dict(bound), qual, parent=pframe)
                except PyExc as pe:
                    exc = pe.exc
                    for (cls, when, post) in ct.raises:
                        if issubclass(exc.cls, cls):
                            w = when(c, old, a) if when else True
                            p = c.proving(post, c, old, a, exc) if post else True
                            if isinstance(p, ExcVal):
                                p = True
                            fs = [x for x in (w, p) if x is not True]
                            c.prove(f"post.raises:{cls.__name__}", z3.And(*fs) if fs else True, fnode,
                                    note=f"raised {exc.cls.__name__}")
                            self.frame_exit(c, ct, old, a, fnode, f"frame.raises:{cls.__name__}")
                            return f"raise {cls.__name__}"
                    c.prove(f"raises.unexpected:{exc.cls.__name__}", False, fnode,
                            note=f"exception {exc.cls.__name__}{tuple(str(x)[:60] for x in exc.args)} is not allowed by the contract")
                    return f"raise! {exc.cls.__name__}"
                c.prove("post.normal", c.proving(ct.ensures, c, old, a, res), fnode)
                self.frame_exit(c, ct, old, a, fnode, "frame")
                return "normal"
            try:
                n, und, exits = self.explore(label, run_path, roots=roots, split_only=split_only)
            finally:
                self.current_target = prev
            rep["cases"][case_name] = dict(paths=n, exits=exits)
            rep["paths"] += n
            rep["undecided"] += [f"{case_name}: {u}" for u in und]
            if not any(k != "(cut)" for k in exits) and not und and roots is None and not split_only:
                rep["undecided"].append(f"{case_name}: no path reaches an exit (vacuous contract case)")
        rep["time_s"] = time.time() - t0
        rep["sites"] = [(k_[0], k_[1], k_[2], v_[0], v_[1]) for k_, v_ in self.site_stats.items()]
        self.site_stats = {}
        rep["inlined"], rep["uses"] = sorted(self.inlined_now), sorted(self.used_now)
        self.inlined_now, self.used_now = set(), set()
        if roots is None and not split_only:
            rep["undecided"] += vacuous_sites(rep["sites"])
        self.fn_reports[key] = rep
        return rep

    def run_one(self, key, case_name, prefix):
        """Explore exactly one path (decision prefix) of one contract case.  Returns (pending prefixes, exit kinds, undecided, report)."""
        r = self.verify(key, only_case=case_name, roots=[list(prefix)], split_only=True)
        case = r.get("cases", {}).get(case_name, {})
        return [list(p) for p in self.split_pending], case.get("exits", {}), list(r.get("undecided", [])), r

    def frame_exit(self, c, ct, old, a, node, label):
        mods = ct.modifies(c, a)
        self.interp.check_frame(c, old, mods, label, node)
        gm = {m[6:] for m in mods if isinstance(m, str) and m.startswith("ghost:")} | \
             {m[1] for m in mods if isinstance(m, tuple) and m[0] == "ghost"}
        for g, ov in old.ghost.items():
            if g in gm or g.startswith("$"):
                continue
            nv = c.ghost.get(g)
            if nv is ov:
                continue
            c.prove(f"{label}:ghost.{g}", self.interp.same_value(c, ov, nv), node)

    def lemma(self, name, hyps, goal, props=()):
        """Property-level lemma over contracts, discharged like any obligation."""
        res = smt.discharge(list(hyps), goal, self.timeout_ms)
        res.update(name=name, fn="lemma", line=None, path=[])
        if res["verdict"] != "discharged":
            res["goal"] = str(goal)[:600]
        self.results[("lemma", name, (), 0)] = res
        return res


def vacuous_sites(sites):
    """sites: (case label, site, flagged, attempts, consistent) records, possibly several per site; a flagged site that was never
    consistent is vacuous."""
    agg = {}
    for (lab, site, flag, att, ok) in sites:
        a_ = agg.setdefault((lab, site, flag), [0, 0])
        a_[0] += att
        a_[1] += ok
    return [f"{lab.split('/')[-1]}: every path is inconsistent after the {site}: what follows it is proved vacuously"
            for (lab, site, flag), (att, ok) in sorted(agg.items()) if flag and att > 0 and ok == 0]


M_int_ok = z3.Function("int_ok", smt.S, smt.Bool)
M_int_val = z3.Function("int_val", smt.S, smt.Int)
