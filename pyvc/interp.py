"""Symbolic executor for the Python subset of DESIGN.md section 2.2 (decision-replay, one path per run)."""
import ast
import builtins
import importlib
import inspect
import sys
import types

import z3

from . import smt
from .ctx import Ctx, Undecided, PathEnd, Signal, PyExc, Ret, Brk, Cont, Impure
from .values import (SV, Ref, Rope, SymSeq, Ext, ExcVal, BigInt, Closure, BoundMethod, ValMethod, Opaque, OptV,
                     z, tag_of, concrete)


class Frame:
    def __init__(self, qual, module, locals_, parent=None, fnode=None):
        self.qual, self.module, self.locals, self.parent, self.fnode = qual, module, locals_, parent, fnode
        self.loop_ord = {}


class ModuleIndex:
    """AST index of one real module: qualname -> [FunctionDef], re-read from the working tree."""

    def __init__(self, module):
        self.module = module
        self.path = inspect.getsourcefile(module)
        self.source = open(self.path).read()
        self.tree = ast.parse(self.source)
        self.defs = {}
        self._walk(self.tree, "")

    def _walk(self, node, prefix):
        for ch in ast.iter_child_nodes(node):
            if isinstance(ch, (ast.FunctionDef, ast.AsyncFunctionDef)):
                q = prefix + ch.name
                self.defs.setdefault(q, []).append(ch)
                self._walk(ch, q + ".<locals>.")
            elif isinstance(ch, ast.ClassDef):
                self._walk(ch, prefix + ch.name + ".")
            else:
                self._walk(ch, prefix)

    def find(self, qual, firstlineno=None):
        cands = self.defs.get(qual, [])
        if not cands:
            return None
        if firstlineno is not None and len(cands) > 1:
            for n in cands:
                if n.lineno == firstlineno or any(d.lineno == firstlineno for d in n.decorator_list):
                    return n
        return cands[-1] if firstlineno is None else cands[0]

    def segment(self, node):
        return ast.get_source_segment(self.source, node)


def truth(c, v):
    """Python truthiness of a value as python bool or z3 Bool."""
    if isinstance(v, OptV) and getattr(v, "cond", None) is not None:
        ta, tb = truth(c, v.a), truth(c, v.b)
        return z3.If(v.cond, z3.BoolVal(ta) if isinstance(ta, bool) else ta, z3.BoolVal(tb) if isinstance(tb, bool) else tb)
    if isinstance(v, OptV):
        t = truth(c, v.val)
        return z3.And(z3.Not(v.isnone), z3.BoolVal(t) if isinstance(t, bool) else t)
    if isinstance(v, SV):
        if v.tag == "bool":
            return v.t
        if v.tag == "int":
            return v.t != 0
        if v.tag == "real":
            return v.t != 0
        if v.tag == "bytes":
            return smt.slen(v.t) > 0
        if v.tag == "str":
            return z3.Length(v.t) > 0
    if isinstance(v, Ref):
        cell = c.cell(v)
        if cell.kind == "list":
            d = cell.data
            if isinstance(d, Rope):
                raise Undecided("truthiness of abstract rope")
            if isinstance(d, SymSeq):
                return z(d.length) > 0
            return len(d) > 0
        if cell.kind == "dict":
            if all(p is True for p, _ in cell.data.values()):
                return len(cell.data) > 0
            if not cell.data:
                return False
            return z3.Or(*[z3.BoolVal(True) if p is True else p for p, _ in cell.data.values()])
        return True
    if isinstance(v, SymSeq):
        return z(v.length) > 0
    if isinstance(v, Ext):
        h = getattr(c.engine, "ext_truth", {}).get(v.kind)
        return h(c, v) if h else True
    if isinstance(v, (ExcVal, Closure, BoundMethod, ValMethod)):
        return True
    if isinstance(v, Opaque):
        raise Undecided(f"truthiness of opaque value ({v.what})")
    if isinstance(v, BigInt):
        raise Undecided("truthiness of big int")
    return bool(v)


def as_bytes_term(v):
    if isinstance(v, SV) and v.tag == "bytes":
        return v.t
    if isinstance(v, (bytes, bytearray)):
        return smt.bytes_lit(bytes(v))
    raise Undecided(f"expected bytes, got {tag_of(v)}")


def as_str_term(v):
    if isinstance(v, SV) and v.tag == "str":
        return v.t
    if isinstance(v, str):
        return z3.StringVal(v)
    raise Undecided(f"expected str, got {tag_of(v)}")


def mk(tag, t, sub=None):
    """Wrap a term, folding literals back to python values."""
    t = z3.simplify(t)
    if tag == "int" and z3.is_int_value(t):
        return t.as_long()
    if tag == "bool":
        if z3.is_true(t):
            return True
        if z3.is_false(t):
            return False
    if tag == "str" and z3.is_string_value(t):
        return t.as_string()
    return SV(tag, t, sub)


def py_exc(cls, *args):
    return PyExc(ExcVal(cls, args))


class Interp:
    def __init__(self, engine):
        self.e = engine

    # ================================================================ statements
    def exec_block(self, c, stmts):
        for s in stmts:
            self.exec_stmt(c, s)

    def exec_stmt(self, c, s):
        m = getattr(self, "s_" + type(s).__name__, None)
        if m is None:
            raise Undecided(f"statement {type(s).__name__} at line {s.lineno}")
        return m(c, s)

    def s_Pass(self, c, s):
        pass

    def s_Global(self, c, s):
        c.frames[-1].locals.setdefault("$globals", set()).update(s.names)

    def s_Nonlocal(self, c, s):
        c.frames[-1].locals.setdefault("$nonlocals", set()).update(s.names)

    def s_Expr(self, c, s):
        if isinstance(s.value, ast.Constant):
            return
        self.ev(c, s.value)

    def s_Return(self, c, s):
        raise Ret(self.ev(c, s.value) if s.value is not None else None)

    def s_Break(self, c, s):
        raise Brk()

    def s_Continue(self, c, s):
        raise Cont()

    def s_Assert(self, c, s):
        if not c.branch(truth(c, self.ev(c, s.test))):
            raise py_exc(AssertionError)

    def s_FunctionDef(self, c, s):
        fr = c.frames[-1]
        c.frames[-1].locals[s.name] = Closure(s, fr, f"{fr.qual}.<locals>.{s.name}")

    def s_Assign(self, c, s):
        v = self.ev(c, s.value)
        for t in s.targets:
            self.assign(c, t, v)

    def s_AnnAssign(self, c, s):
        if s.value is not None:
            self.assign(c, s.target, self.ev(c, s.value))

    def s_AugAssign(self, c, s):
        if isinstance(s.target, ast.Name):
            cur = self.lookup(c, s.target.id, s.target)
            self.assign(c, s.target, self.binop(c, s.op, cur, self.ev(c, s.value), s))
        elif isinstance(s.target, ast.Attribute):
            obj = self.ev(c, s.target.value)
            cur = self.getattr_(c, obj, s.target.attr, s)
            self.setattr_(c, obj, s.target.attr, self.binop(c, s.op, cur, self.ev(c, s.value), s), s)
        elif isinstance(s.target, ast.Subscript):
            obj = self.ev(c, s.target.value)
            idx = self.ev(c, s.target.slice)
            cur = self.subscript(c, obj, idx, s)
            self.store_subscript(c, obj, idx, self.binop(c, s.op, cur, self.ev(c, s.value), s), s)
        else:
            raise Undecided(f"augassign target line {s.lineno}")

    def assign(self, c, t, v):
        if isinstance(t, ast.Name):
            fr = c.frames[-1]
            if t.id in fr.locals.get("$nonlocals", ()):
                p = fr.parent
                while p is not None:
                    if t.id in p.locals:
                        p.locals[t.id] = v
                        return
                    p = p.parent
                raise Undecided(f"nonlocal {t.id}")
            if t.id in fr.locals.get("$globals", ()):
                c.ghost["$global:" + t.id] = v
                return
            fr.locals[t.id] = v
        elif isinstance(t, (ast.Tuple, ast.List)):
            if isinstance(v, Ref) and isinstance(c.cell(v).data, SymSeq):
                seq = c.cell(v).data
                if not c.branch(z(seq.length, "int") == len(t.elts)):
                    raise py_exc(ValueError, "unpack arity")
                items = [seq.elem(c, i) for i in range(len(t.elts))]
            else:
                items = self.iterate(c, v, t)
            if len(items) != len(t.elts):
                raise py_exc(ValueError, "unpack arity")
            for tt, vv in zip(t.elts, items):
                self.assign(c, tt, vv)
        elif isinstance(t, ast.Attribute):
            self.setattr_(c, self.ev(c, t.value), t.attr, v, t)
        elif isinstance(t, ast.Subscript):
            self.store_subscript(c, self.ev(c, t.value), self.ev(c, t.slice), v, t)
        else:
            raise Undecided(f"assignment target {type(t).__name__}")

    def s_If(self, c, s):
        if c.branch(self.cond(c, s.test)):
            self.exec_block(c, s.body)
        else:
            self.exec_block(c, s.orelse)

    def cond(self, c, test):
        """Truth of a test expression; pure boolean structure is kept as one formula (no forking)."""
        if isinstance(test, ast.BoolOp) or (isinstance(test, ast.UnaryOp) and isinstance(test.op, ast.Not)):
            # eager evaluation is only an optimisation: it is abandoned as soon as an operand would fork or raise,
            # and the test is then evaluated with Python's short-circuit order
            was = c.dry
            c.dry = True
            try:
                f = self.pure_truth(c, test)
            except (Impure, PyExc):
                f = None
            finally:
                c.dry = was
            if f is not None:
                return f
        return truth(c, self.ev(c, test, raw=True))

    def pure_truth(self, c, e):
        """Formula for tests built from and/or/not over sub-tests that need no forking themselves."""
        if isinstance(e, ast.BoolOp):
            parts = []
            for v in e.values:
                p = self.pure_truth(c, v)
                if p is None:
                    return None
                parts.append(p)
            parts = [z3.BoolVal(p) if isinstance(p, bool) else p for p in parts]
            return z3.And(*parts) if isinstance(e.op, ast.And) else z3.Or(*parts)
        if isinstance(e, ast.UnaryOp) and isinstance(e.op, ast.Not):
            p = self.pure_truth(c, e.operand)
            if p is None:
                return None
            return (not p) if isinstance(p, bool) else z3.Not(p)
        if self.is_simple(e):
            v = self.ev(c, e, raw=True)
            return truth(c, v)
        return None

    def is_simple(self, e):
        """Expression whose evaluation cannot raise or fork in a way that matters for short-circuit order:
        names, constants, attribute chains on names, comparisons / arithmetic of those."""
        if isinstance(e, (ast.Name, ast.Constant)):
            return True
        if isinstance(e, ast.Attribute):
            return self.is_simple(e.value)
        if isinstance(e, ast.Compare):
            return self.is_simple(e.left) and all(self.is_simple(x) for x in e.comparators) and \
                all(isinstance(o, (ast.Eq, ast.NotEq, ast.Lt, ast.LtE, ast.Gt, ast.GtE, ast.Is, ast.IsNot, ast.In, ast.NotIn))
                    for o in e.ops)
        if isinstance(e, ast.BinOp) and isinstance(e.op, (ast.Add, ast.Sub)):
            return self.is_simple(e.left) and self.is_simple(e.right)
        if isinstance(e, ast.Tuple):
            return all(self.is_simple(x) for x in e.elts)
        return False

    # ---------------------------------------------------------------- loops
    def loop_spec(self, c, s):
        fr = c.frames[-1]
        k = id(s)
        if k not in fr.loop_ord:
            loops = [n for n in ast.walk(fr.fnode) if isinstance(n, (ast.While, ast.For))] if fr.fnode else []
            # ordinal among loops of this function in source order, nested defs excluded
            own = [n for n in self._own_loops(fr.fnode)] if fr.fnode else []
            fr.loop_ord[k] = own.index(s) if s in own else -1
        return self.e.loop_specs.get((fr.qual, fr.loop_ord[k])), fr.loop_ord[k]

    def _own_loops(self, fnode):
        out = []

        def walk(n):
            for ch in ast.iter_child_nodes(n):
                if isinstance(ch, (ast.FunctionDef, ast.Lambda, ast.ClassDef)):
                    continue
                if isinstance(ch, (ast.While, ast.For)):
                    out.append(ch)
                walk(ch)
        walk(fnode)
        out.sort(key=lambda n: (n.lineno, n.col_offset))
        return out

    def assigned_names(self, stmts):
        names = []

        def tgt(t):
            if isinstance(t, ast.Name):
                if t.id not in names:
                    names.append(t.id)
            elif isinstance(t, (ast.Tuple, ast.List)):
                for x in t.elts:
                    tgt(x)

        class V(ast.NodeVisitor):
            def visit_FunctionDef(self, n):
                pass

            def visit_Assign(self, n):
                for t in n.targets:
                    tgt(t)
                self.generic_visit(n)

            def visit_AugAssign(self, n):
                tgt(n.target)
                self.generic_visit(n)

            def visit_AnnAssign(self, n):
                tgt(n.target)
                self.generic_visit(n)

            def visit_For(self, n):
                tgt(n.target)
                self.generic_visit(n)

            def visit_NamedExpr(self, n):
                tgt(n.target)
                self.generic_visit(n)

            def visit_ExceptHandler(self, n):
                if n.name and n.name not in names:
                    names.append(n.name)
                self.generic_visit(n)
        v = V()
        for s in stmts:
            v.visit(s)
        return names

    def run_cut_loop(self, c, s, spec, ordn, guard_fn, pre_body=None, extra_names=(), head_assume=None):
        """Loop cut at its head (DESIGN 2.6): invariant on entry, havoc, assume, one arbitrary iteration."""
        fr = c.frames[-1]
        tag = f"loop{ordn}"
        env = fr.locals
        entry = c.snapshot()
        inv = spec["inv"]
        if "ghost_locals" in spec:
            env.update(spec["ghost_locals"](c, fr))
        c.prove(f"{tag}.inv.entry", c.proving(inv, c, fr, entry), s)
        if "entry_check" in spec:
            c.prove(f"{tag}.entry-check", c.proving(spec["entry_check"], c, fr), s)
        shapes = spec.get("shapes", {})
        for n in list(self.assigned_names(s.body)) + list(extra_names):
            if n in env and n not in spec.get("keep", ()):
                shp = shapes.get(n)
                env[n] = c.fresh(shp, n) if shp else c.havoc_like(env[n], n)
        if "havoc" in spec:
            spec["havoc"](c, fr, entry)
        if head_assume:
            head_assume()
        c.assume(inv(c, fr, entry))
        self.e.site_check(c, f"head of loop {ordn} of {fr.qual} (invariant assumed on havocked state)")
        for f in spec.get("facts", lambda c, fr: [])(c, fr):
            c.assume(f)
        head = c.snapshot()
        dec0 = spec["decreases"](c, fr) if "decreases" in spec else None
        if c.branch(guard_fn()):
            try:
                if pre_body:
                    pre_body()
                self.exec_block(c, s.body)
            except Cont:
                pass
            except Brk:
                return "break"
            c.prove(f"{tag}.inv.preserved", c.proving(inv, c, fr, entry), s)
            if dec0 is not None:
                d1 = spec["decreases"](c, fr)
                c.prove(f"{tag}.decreases", z3.And(dec0 >= 0, d1 < dec0), s)
            self.check_frame(c, head, spec.get("modifies", lambda c, fr: [])(c, fr), f"{tag}.frame", s)
            raise PathEnd()
        return "exit"

    def check_frame(self, c, old, mods, label, node):
        """Everything on the heap that existed in `old` and is not listed in mods must be unchanged."""
        allowed = set()
        for m in mods:
            if isinstance(m, tuple) and isinstance(m[0], Ref):
                allowed.add((m[0].id, m[1]))
                ov = old.heap[m[0].id].data.get(m[1]) if m[0].id in old.heap and isinstance(old.heap[m[0].id].data, dict) else None
                if isinstance(ov, OptV):
                    ov = ov.val
                if isinstance(ov, Ref) and ov.kind in ("list", "dict"):
                    allowed.add((ov.id, None))
            elif isinstance(m, Ref):
                allowed.add((m.id, None))
        for rid, ocell in old.heap.items():
            ncell = c.heap.get(rid)
            if ncell is None or (rid, None) in allowed:
                continue
            if isinstance(ocell.data, dict):
                for f, ov in ocell.data.items():
                    if (rid, f) in allowed:
                        continue
                    nv = ncell.data.get(f, "$missing")
                    if nv is ov:
                        continue
                    c.prove(f"{label}:{f}", self.same_value(c, ov, nv), node)
            else:
                if ncell.data is ocell.data or ncell.data == ocell.data:
                    continue
                od, nd = ocell.data, ncell.data
                if isinstance(od, Rope) and isinstance(nd, Rope):
                    c.prove(f"{label}:list#{rid}", smt.seq_eq(od.joined, nd.joined), node)
                else:
                    c.prove(f"{label}:list#{rid}", self.same_value(c, od, nd), node)

    def same_value(self, c, a, b):
        if a is b:
            return True
        if getattr(a, "cond", None) is not None or getattr(b, "cond", None) is not None:
            x, y = (a, b) if getattr(a, "cond", None) is not None else (b, a)
            fa, fb = self.same_value(c, x.a, y), self.same_value(c, x.b, y)
            fa = z3.BoolVal(fa) if isinstance(fa, bool) else fa
            fb = z3.BoolVal(fb) if isinstance(fb, bool) else fb
            return z3.If(x.cond, fa, fb)
        if isinstance(a, OptV) or isinstance(b, OptV):
            from .values import isnone, unopt
            na, nb = isnone(a), isnone(b)
            na = z3.BoolVal(na) if isinstance(na, bool) else na
            nb = z3.BoolVal(nb) if isinstance(nb, bool) else nb
            va, vb = unopt(a), unopt(b)
            if va is None or vb is None:
                return z3.And(na, nb)
            inner = self.same_value(c, va, vb)
            inner = z3.BoolVal(inner) if isinstance(inner, bool) else inner
            return z3.And(na == nb, z3.Implies(z3.Not(na), inner))
        if isinstance(a, tuple) and isinstance(a, tuple) and isinstance(b, tuple):
            if len(a) != len(b) or len(a) and isinstance(a[0], (z3.ExprRef, bool)) and len(a) == 2 and False:
                return False
            fs = [self.same_value(c, x, y) for x, y in zip(a, b)]
            if any(f is False for f in fs):
                return False
            fs = [f for f in fs if f is not True]
            return z3.And(*fs) if fs else True
        if isinstance(a, list) and isinstance(b, list):
            return self.same_value(c, tuple(a), tuple(b))
        if isinstance(a, z3.ExprRef) and isinstance(b, z3.ExprRef):
            return a == b
        if isinstance(a, Ref) and isinstance(b, Ref):
            return a.id == b.id
        if isinstance(a, (Ext,)) or isinstance(b, (Ext,)):
            return a is b
        ta, tb = tag_of(a), tag_of(b)
        if ta == "bool" and tb == "int" or ta == "int" and tb == "bool":
            return z(a, "int") == z(b, "int")
        if ta != tb:
            return False
        if ta == "bytes":
            return smt.seq_eq(z(a), z(b))
        if ta in ("int", "bool", "real", "str"):
            return z(a) == z(b)
        if ta == "none":
            return True
        return a == b if not isinstance(a, (Closure, BoundMethod)) else a is b

    def s_While(self, c, s):
        spec, ordn = self.loop_spec(c, s)
        if spec is not None:
            r = self.run_cut_loop(c, s, spec, ordn, lambda: self.cond(c, s.test))
            if r == "exit":
                self.exec_block(c, s.orelse)
            return
        # no contract: only loops whose guard is decided concretely each time may be unrolled
        n = 0
        while True:
            t = self.cond(c, s.test)
            if not isinstance(t, bool):
                t2 = z3.simplify(t)
                if z3.is_true(t2):
                    t = True
                elif z3.is_false(t2):
                    t = False
                else:
                    raise Undecided(f"while loop at line {s.lineno} of {c.frames[-1].qual} needs an invariant")
            if not t:
                self.exec_block(c, s.orelse)
                return
            n += 1
            if n > 64:
                raise Undecided(f"while loop at line {s.lineno} does not terminate concretely")
            try:
                self.exec_block(c, s.body)
            except Brk:
                return
            except Cont:
                continue

    def s_For(self, c, s):
        spec, ordn = self.loop_spec(c, s)
        it = self.ev(c, s.iter)
        if spec is not None:
            seq = self.as_symseq(c, it, s)
            fr = c.frames[-1]
            ivar = f"$i{ordn}"
            fr.locals[ivar] = 0
            spec = dict(spec)
            shapes = dict(spec.get("shapes", {}))
            shapes[ivar] = "int"
            spec["shapes"] = shapes

            def guard():
                return z(fr.locals[ivar], "int") < z(seq.length, "int")

            def pre():
                i = fr.locals[ivar]
                self.assign(c, s.target, seq.elem(c, i))
                fr.locals[ivar] = mk("int", z(i, "int") + 1)

            def head_assume():
                c.assume(z(fr.locals[ivar], "int") >= 0)
                c.assume(z(fr.locals[ivar], "int") <= z(seq.length, "int"))
            tnames = self.assigned_names([ast.Assign(targets=[s.target], value=ast.Constant(0))])
            for n in tnames:
                fr.locals.pop(n, None)
            r = self.run_cut_loop(c, s, spec, ordn, guard, pre, extra_names=[ivar], head_assume=head_assume)
            if r == "exit":
                self.exec_block(c, s.orelse)
            return
        items = self.iterate(c, it, s)
        for v in items:
            self.assign(c, s.target, v)
            try:
                self.exec_block(c, s.body)
            except Brk:
                return
            except Cont:
                continue
        self.exec_block(c, s.orelse)

    def as_symseq(self, c, it, node):
        if isinstance(it, SymSeq):
            return it
        if isinstance(it, SV) and it.tag == "bytes":
            return SymSeq(mk("int", smt.slen(it.t)), lambda c, i: mk("int", smt.at(it.t, z(i))), "bytes")
        if isinstance(it, Ref) and isinstance(c.cell(it).data, SymSeq):
            return c.cell(it).data
        if isinstance(it, Ref) and isinstance(c.cell(it).data, list):
            it = tuple(c.cell(it).data)
        if isinstance(it, range):
            it = tuple(it)
        if isinstance(it, (tuple, list)):
            items = list(it)

            def elem(c_, i, items=items):
                ok, k = concrete(i)
                if not ok:
                    k = len(items) - 1 if len(items) else 0
                    for j in range(len(items)):
                        if c_.branch(z(i, "int") == j):
                            k = j
                            break
                return items[k]
            return SymSeq(len(items), elem, "concrete")
        raise Undecided(f"for-loop with invariant over {tag_of(it)} at line {node.lineno}")

    def iterate(self, c, v, node):
        """Concrete-length iteration (unrolled exactly)."""
        if isinstance(v, (tuple, list)):
            return list(v)
        if isinstance(v, range):
            return list(v)
        if isinstance(v, (bytes, bytearray)):
            return list(v)
        if isinstance(v, str):
            return list(v)
        if isinstance(v, Ref):
            cell = c.cell(v)
            if cell.kind == "list" and isinstance(cell.data, list):
                return list(cell.data)
            if cell.kind == "dict":
                return [k for k in self.dict_keys(c, v)]
        if isinstance(v, dict):
            return list(v)
        if isinstance(v, (types.GeneratorType,)):
            return list(v)
        raise Undecided(f"iteration over {tag_of(v)} at line {getattr(node, 'lineno', '?')} needs a loop contract")

    def dict_keys(self, c, ref):
        out = []
        for k, (p, _) in list(c.cell(ref).data.items()):
            if p is True or c.branch(p):
                out.append(k)
        return out

    # ---------------------------------------------------------------- try / with / raise
    def s_Raise(self, c, s):
        if s.exc is None:
            if not c.handled:
                raise py_exc(RuntimeError, "No active exception to reraise")
            raise PyExc(c.handled[-1])
        v = self.ev(c, s.exc)
        if isinstance(v, type) and issubclass(v, BaseException):
            v = ExcVal(v, ())
        if not isinstance(v, ExcVal):
            raise py_exc(TypeError, "exceptions must derive from BaseException")
        raise PyExc(v)

    def s_Try(self, c, s):
        try:
            try:
                self.exec_block(c, s.body)
            except PyExc as pe:
                for h in s.handlers:
                    if self.handler_matches(c, h, pe.exc):
                        if h.name:
                            c.frames[-1].locals[h.name] = pe.exc
                        c.handled.append(pe.exc)
                        try:
                            self.exec_block(c, h.body)
                        finally:
                            c.handled.pop()
                        break
                else:
                    raise
            else:
                self.exec_block(c, s.orelse)
        except Signal:
            if s.finalbody:
                self.exec_block(c, s.finalbody)
            raise
        else:
            if s.finalbody:
                self.exec_block(c, s.finalbody)

    def handler_matches(self, c, h, exc):
        if h.type is None:
            return True
        t = self.ev(c, h.type)
        classes = t if isinstance(t, tuple) else (t,)
        for k in classes:
            if not isinstance(k, type):
                raise Undecided(f"except clause with non-class {k!r}")
            if issubclass(exc.cls, k):
                return True
        return False

    def s_With(self, c, s):
        mgrs = []
        for item in s.items:
            m = self.ev(c, item.context_expr)
            if item.optional_vars is not None:
                raise Undecided("with ... as")
            self.e.models.lock_acquire(c, m, s)
            mgrs.append(m)
        try:
            self.exec_block(c, s.body)
        except Signal:
            for m in reversed(mgrs):
                self.e.models.lock_release(c, m, s, exceptional=True)
            raise
        else:
            for m in reversed(mgrs):
                self.e.models.lock_release(c, m, s, exceptional=False)

    # ================================================================ expressions
    def ev(self, c, e, raw=False):
        """Evaluate; lazily optional values are forced (forking on None-ness) unless raw is set, which the
        callers that only test None-ness / truthiness use."""
        m = getattr(self, "e_" + type(e).__name__, None)
        if m is None:
            raise Undecided(f"expression {type(e).__name__} at line {getattr(e, 'lineno', '?')}")
        v = m(c, e)
        if isinstance(v, OptV) and not raw:
            v = c.force(v)
            # refine the stored representation along this path (no semantic change)
            if isinstance(e, ast.Name):
                f = c.frames[-1]
                while f is not None:
                    if e.id in f.locals:
                        f.locals[e.id] = v
                        break
                    f = f.parent
            elif isinstance(e, ast.Attribute):
                try:
                    o = self.ev(c, e.value)
                    if isinstance(o, Ref) and o.kind == "obj" and c.hasf(o, e.attr):
                        c.setf(o, e.attr, v)
                except Signal:
                    pass
        return v

    def e_Constant(self, c, e):
        return e.value

    def lookup(self, c, name, node=None):
        fr = c.frames[-1]
        f = fr
        while f is not None:
            if name in f.locals:
                return f.locals[name]
            f = f.parent
        if "$global:" + name in c.ghost:
            return c.ghost["$global:" + name]
        ov = self.e.global_overrides.get((fr.module.__name__, name), self)
        if ov is not self:
            return ov(c) if callable(ov) and getattr(ov, "_is_override", False) else ov
        if hasattr(fr.module, name):
            return self.reflect(getattr(fr.module, name))
        if hasattr(builtins, name):
            return getattr(builtins, name)
        raise py_exc(NameError, name)

    def reflect(self, v):
        """Real python object from the live module -> value."""
        if isinstance(v, list):
            return tuple(self.reflect(x) for x in v) if all(isinstance(x, (int, str, bytes, tuple, float, bool, type(None))) for x in v) else v
        if isinstance(v, tuple):
            return tuple(self.reflect(x) for x in v)
        if isinstance(v, int) and not isinstance(v, bool) and type(v) is not int:
            return int(v)  # IntEnum (HTTPStatus) -> int
        return v

    def e_Name(self, c, e):
        return self.lookup(c, e.id, e)

    def e_Tuple(self, c, e):
        return tuple(self.ev(c, x) for x in e.elts)

    def e_List(self, c, e):
        return c.alloc("list", None, [self.ev(c, x) for x in e.elts])

    def e_Dict(self, c, e):
        d = {}
        for k, v in zip(e.keys, e.values):
            kk = self.ev(c, k)
            if not isinstance(kk, (str, int)):
                raise Undecided("dict literal with symbolic key")
            d[kk] = (True, self.ev(c, v))
        return c.alloc("dict", None, d)

    def e_JoinedStr(self, c, e):
        parts = []
        for v in e.values:
            if isinstance(v, ast.Constant):
                parts.append(v.value)
            else:
                x = self.ev(c, v.value)
                parts.append(self.e.models.to_str(c, x, v))
        return self.e.models.str_concat(c, parts)

    def e_NamedExpr(self, c, e):
        v = self.ev(c, e.value)
        self.assign(c, e.target, v)
        return v

    def e_Assert_dummy(self):
        pass

    def e_IfExp(self, c, e):
        if c.branch(self.cond(c, e.test)):
            return self.ev(c, e.body)
        return self.ev(c, e.orelse)

    def e_BoolOp(self, c, e):
        v = None
        for i, x in enumerate(e.values):
            v = self.ev(c, x, raw=True)
            if i == len(e.values) - 1:
                return v
            t = c.branch(truth(c, v))
            if isinstance(e.op, ast.And) and not t:
                return v
            if isinstance(e.op, ast.Or) and t:
                return v
        return v

    def e_UnaryOp(self, c, e):
        v = self.ev(c, e.operand, raw=isinstance(e.op, ast.Not))
        if isinstance(e.op, ast.Not):
            t = truth(c, v)
            return (not t) if isinstance(t, bool) else mk("bool", z3.Not(t))
        if isinstance(e.op, ast.USub):
            if isinstance(v, SV):
                return mk(v.tag, -z(v, "int" if v.tag != "real" else "real"))
            return -v
        raise Undecided(f"unary {type(e.op).__name__}")

    def e_BinOp(self, c, e):
        return self.binop(c, e.op, self.ev(c, e.left), self.ev(c, e.right), e)

    def binop(self, c, op, a, b, node):
        return self.e.models.binop(c, op, a, b, node)

    def e_Compare(self, c, e):
        none_test = len(e.ops) == 1 and isinstance(e.ops[0], (ast.Is, ast.IsNot)) and \
            isinstance(e.comparators[0], ast.Constant) and e.comparators[0].value is None
        left = self.ev(c, e.left, raw=none_test)
        res = []
        for op, r in zip(e.ops, e.comparators):
            right = self.ev(c, r)
            res.append(self.e.models.compare(c, op, left, right, e))
            left = right
        if len(res) == 1:
            r = res[0]
            return r if isinstance(r, bool) else mk("bool", r)
        if any(r is False for r in res):
            return False
        fs = [r for r in res if r is not True]
        return mk("bool", z3.And(*fs)) if fs else True

    def e_Attribute(self, c, e):
        return self.getattr_(c, self.ev(c, e.value), e.attr, e)

    def getattr_(self, c, obj, attr, node=None):
        return self.e.models.getattr_(c, obj, attr, node)

    def setattr_(self, c, obj, attr, v, node=None):
        if isinstance(obj, Ref) and obj.kind == "obj":
            c.setf(obj, attr, v)
            return
        if isinstance(obj, Ext):
            self.e.models.ext_setattr(c, obj, attr, v, node)
            return
        if isinstance(obj, ExcVal):
            obj.attrs[attr] = v
            return
        if obj is None:
            raise py_exc(AttributeError, f"'NoneType' object has no attribute '{attr}'")
        raise Undecided(f"attribute store on {tag_of(obj)}.{attr}")

    def e_Subscript(self, c, e):
        obj = self.ev(c, e.value)
        if isinstance(e.slice, ast.Slice):
            lo = self.ev(c, e.slice.lower) if e.slice.lower is not None else None
            hi = self.ev(c, e.slice.upper) if e.slice.upper is not None else None
            if e.slice.step is not None:
                raise Undecided("slice step")
            return self.e.models.slice_(c, obj, lo, hi, e)
        return self.subscript(c, obj, self.ev(c, e.slice), e)

    def subscript(self, c, obj, idx, node):
        return self.e.models.subscript(c, obj, idx, node)

    def store_subscript(self, c, obj, idx, v, node):
        return self.e.models.store_subscript(c, obj, idx, v, node)

    def e_Starred(self, c, e):
        raise Undecided("starred expression outside call")

    def e_Lambda(self, c, e):
        fr = c.frames[-1]
        return Closure(e, fr, f"{fr.qual}.<locals>.<lambda>")

    def comp_rows(self, c, gens, body):
        """Evaluate nested comprehension generators over concrete-length iterables."""
        out = []
        fr = c.frames[-1]

        def rec(i):
            if i == len(gens):
                out.append(body())
                return
            g = gens[i]
            for v in self.iterate(c, self.ev(c, g.iter), g):
                self.assign(c, g.target, v)
                if all(c.branch(truth(c, self.ev(c, cond))) for cond in g.ifs):
                    rec(i + 1)
        rec(0)
        return out

    def e_ListComp(self, c, e):
        r = self.e.models.symbolic_comprehension(c, self, e)
        if r is not None:
            return r
        return c.alloc("list", None, self.comp_rows(c, e.generators, lambda: self.ev(c, e.elt)))

    def e_GeneratorExp(self, c, e):
        return tuple(self.comp_rows(c, e.generators, lambda: self.ev(c, e.elt)))

    def e_Call(self, c, e):
        fn = self.ev(c, e.func)
        args, kwargs = [], {}
        for a in e.args:
            if isinstance(a, ast.Starred):
                args.extend(self.iterate(c, self.ev(c, a.value), a))
            else:
                args.append(self.ev(c, a))
        for k in e.keywords:
            if k.arg is None:
                d = self.ev(c, k.value)
                if not (isinstance(d, Ref) and d.kind == "dict"):
                    raise Undecided("** of non-dict")
                kwargs["$starstar"] = d
            else:
                kwargs[k.arg] = self.ev(c, k.value)
        return self.call(c, fn, args, kwargs, e)

    # ================================================================ calls
    def call(self, c, fn, args, kwargs, node):
        return self.e.dispatch_call(c, fn, args, kwargs, node)

    def bind_args(self, c, fnode, posargs, kwargs, defaults_env, qual):
        """Python call binding for a FunctionDef; defaults evaluated from AST constants / names."""
        a = fnode.args
        names = [x.arg for x in a.posonlyargs + a.args]
        bound = {}
        pos = list(posargs)
        star = kwargs.pop("$starstar", None) if kwargs else None
        kw = dict(kwargs or {})
        if star is not None:
            for k, (p, v) in c.cell(star).data.items():
                if p is True:
                    kw.setdefault(k, v)
                else:
                    kw.setdefault(k, ("$maybe", p, v))
        for n, v in zip(names, pos):
            bound[n] = v
        extra = pos[len(names):]
        if extra:
            if a.vararg is None:
                raise py_exc(TypeError, f"{qual}() takes {len(names)} positional arguments")
            bound[a.vararg.arg] = tuple(extra)
        elif a.vararg is not None:
            bound[a.vararg.arg] = ()
        defaults = a.defaults
        for n, d in zip(names[len(names) - len(defaults):], defaults):
            if n not in bound and n not in kw:
                bound[n] = defaults_env(d)
        for ka, kd in zip(a.kwonlyargs, a.kw_defaults):
            if ka.arg not in kw and kd is not None:
                bound[ka.arg] = defaults_env(kd)
        allnames = names + [x.arg for x in a.kwonlyargs]
        rest = {}
        for k, v in kw.items():
            if k in allnames:
                if k in bound and k in names[:len(pos)]:
                    raise py_exc(TypeError, f"multiple values for argument {k}")
                if isinstance(v, tuple) and len(v) == 3 and v[0] == "$maybe":
                    if c.branch(v[1]):
                        bound[k] = v[2]
                    elif k not in bound:
                        i = names.index(k) if k in names else -1
                        di = i - (len(names) - len(defaults))
                        if i >= 0 and di >= 0:
                            bound[k] = defaults_env(defaults[di])
                        else:
                            raise py_exc(TypeError, f"missing argument {k}")
                else:
                    bound[k] = v
            else:
                rest[k] = v
        if rest and a.kwarg is None:
            raise py_exc(TypeError, f"{qual}() got unexpected keyword {sorted(rest)}")
        if a.kwarg is not None:
            d = {}
            for k, v in rest.items():
                if isinstance(v, tuple) and len(v) == 3 and v[0] == "$maybe":
                    d[k] = (v[1], v[2])
                else:
                    d[k] = (True, v)
            bound[a.kwarg.arg] = c.alloc("dict", None, d)
        for n in allnames:
            if n not in bound:
                raise py_exc(TypeError, f"{qual}() missing argument {n}")
        return bound

    def run_function(self, c, fnode, module, bound, qual, parent=None):
        fr = Frame(qual, module, bound, parent, fnode)
        c.frames.append(fr)
        if len(c.frames) > 40:
            raise Undecided("call depth")
        try:
            if isinstance(fnode, ast.Lambda):
                return self.ev(c, fnode.body)
            self.exec_block(c, fnode.body)
            return None
        except Ret as r:
            return r.value
        finally:
            c.frames.pop()
