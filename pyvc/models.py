"""Semantics of operators, builtins and library calls on symbolic values (DESIGN.md 2.2, 2.3, 2.14)."""
import array
import ast
import builtins
import struct
import types

import z3

from . import smt
from .ctx import Undecided, PathEnd, PyExc
from .values import (SV, Ref, Rope, SymSeq, Ext, ExcVal, BigInt, Closure, BoundMethod, ValMethod, Opaque, OptV,
                     z, tag_of, concrete)
from .interp import mk, truth, as_bytes_term, as_str_term, py_exc

NUM = ("int", "bool", "real")
int_str = z3.Function("int_str", smt.Int, smt.S)
str_lower = z3.Function("str_lower", smt.S, smt.S)
str_strip = z3.Function("str_strip", smt.S, smt.S)
str_lstrip1 = z3.Function("str_lstrip1", smt.S, smt.S, smt.S)  # s.lstrip(ch)
str_replace_all = z3.Function("str_replace_all", smt.S, smt.S, smt.S, smt.S)
bytes_strip = z3.Function("bytes_strip", smt.Sq, smt.Sq)
bytes_lower = z3.Function("bytes_lower", smt.Sq, smt.Sq)
str_isdigit = z3.Function("str_isdigit", smt.S, smt.Bool)
str_isdecimal = z3.Function("str_isdecimal", smt.S, smt.Bool)
latin1_enc = z3.Function("latin1_enc", smt.S, smt.Sq)
latin1_ok = z3.Function("latin1_ok", smt.S, smt.Bool)
utf8_encodable = z3.Function("utf8_encodable", smt.S, smt.Bool)
is_ascii = z3.Function("is_ascii", smt.S, smt.Bool)


def num_tag(a, b):
    ta, tb = tag_of(a), tag_of(b)
    if ta not in NUM or tb not in NUM:
        return None
    return "real" if "real" in (ta, tb) else "int"


class Models:
    def __init__(self, engine):
        self.e = engine
        self.call_table = {}
        self.method_table = {}
        self._install()

    # ------------------------------------------------------------------ operators
    def binop(self, c, op, a, b, node):
        a, b = c.force(a), c.force(b)
        if isinstance(a, BigInt) or isinstance(b, BigInt):
            if isinstance(op, ast.BitXor) and isinstance(a, BigInt) and isinstance(b, BigInt) \
                    and a.order == b.order and a.xor_with is None and b.xor_with is None:
                return BigInt(a.seq, a.order, b.seq)
            raise Undecided("arithmetic on int.from_bytes() result other than xor")
        if isinstance(a, Opaque) or isinstance(b, Opaque):
            raise Undecided(f"operator on opaque value line {getattr(node, 'lineno', '?')}")
        ta, tb = tag_of(a), tag_of(b)
        nt = num_tag(a, b)
        if not isinstance(a, (SV, Ref)) and not isinstance(b, (SV, Ref)) and nt and ta != "real" and tb != "real":
            try:
                return self._py_binop(op, a, b)
            except ZeroDivisionError:
                raise py_exc(ZeroDivisionError)
        if isinstance(op, ast.Add):
            if nt:
                return mk(nt, z(a, nt) + z(b, nt))
            if ta == "bytes" and tb == "bytes":
                return mk("bytes", smt.cat(z(a), z(b)))
            if ta == "str" and tb == "str":
                return self.str_concat(c, [a, b])
            if ta == "tuple" and tb == "tuple":
                return a + b
            if ta == "list" and tb == "list":
                return c.alloc("list", None, list(c.cell(a).data) + list(c.cell(b).data))
            raise py_exc(TypeError, f"unsupported operand + {ta} {tb}")
        if isinstance(op, ast.Sub) and nt:
            return mk(nt, z(a, nt) - z(b, nt))
        if isinstance(op, ast.Mult):
            if nt:
                return mk(nt, z(a, nt) * z(b, nt))
            if ta == "bytes" and tb in ("int", "bool"):
                return mk("bytes", smt.rep(z(a), z(b, "int")))
            if ta == "tuple" and isinstance(b, int):
                return a * b
        if isinstance(op, ast.FloorDiv) and nt == "int":
            ok, bv = concrete(b)
            if ok and bv > 0:
                return mk("int", z(a, "int") / z(b, "int"))
            if not c.branch(z(b, "int") > 0):
                raise Undecided("floor division by a non-positive or unknown-sign divisor")
            return mk("int", z(a, "int") / z(b, "int"))
        if isinstance(op, ast.Mod):
            if nt == "int":
                ok, bv = concrete(b)
                if ok and bv > 0:
                    return mk("int", z(a, "int") % z(b, "int"))
                if not c.branch(z(b, "int") > 0):
                    raise Undecided("modulo by a non-positive or unknown-sign divisor")
                return mk("int", z(a, "int") % z(b, "int"))
            if ta == "str":
                return SV("str", smt.fresh(smt.S, "fmt"))
        if isinstance(op, ast.Div) and nt:
            if not c.branch(z(b, "real") != 0):
                raise py_exc(ZeroDivisionError)
            return mk("real", z(a, "real") / z(b, "real"))
        if isinstance(op, (ast.LShift, ast.RShift)) and nt == "int":
            ok, k = concrete(b)
            if not ok:
                k = self.enum_int(c, b, 0, 64, node)
            if k < 0:
                raise py_exc(ValueError, "negative shift count")
            if isinstance(op, ast.LShift):
                return mk("int", z(a, "int") * (2 ** k))
            return mk("int", z(a, "int") / (2 ** k))
        if isinstance(op, ast.BitAnd) and nt == "int":
            ok, m = concrete(b)
            if not ok:
                oka, ma = concrete(a)
                if oka:
                    a, b, ok, m = b, a, True, ma
            if ok and m >= 0 and (m + 1) & m == 0:  # 2^k - 1
                return mk("int", z(a, "int") % (m + 1))
            if ok and m > 0:
                j = (m & -m).bit_length() - 1
                n_ = m.bit_length()
                if m == 2 ** n_ - 2 ** j:
                    # contiguous high mask of an n-bit value: clears the low j bits
                    ta_ = z(a, "int")
                    if c.branch(z3.And(ta_ >= 0, ta_ < 2 ** n_)):
                        return mk("int", ta_ - ta_ % (2 ** j))
            if ok and m >= 0:
                # general non-negative concrete mask, for 0 <= a: sum of selected bits
                ta_ = z(a, "int")
                if not c.branch(ta_ >= 0):
                    raise Undecided("bitwise and of a negative value with a general mask")
                terms = []
                bit = 0
                mm = m
                while mm:
                    if mm & 1:
                        terms.append(((ta_ / (2 ** bit)) % 2) * (2 ** bit))
                    mm >>= 1
                    bit += 1
                # contiguous runs are collapsed by simplify; fine for 32-bit masks
                return mk("int", z3.Sum(terms) if terms else z3.IntVal(0))
            return mk("int", smt.band(z(a, "int"), z(b, "int")))
        if isinstance(op, ast.BitOr) and nt == "int":
            ta_, tb_ = z(a, "int"), z(b, "int")
            for f in smt.bitfacts_or(ta_, tb_):
                c.assume(f)
            return mk("int", smt.bor(ta_, tb_))
        raise Undecided(f"operator {type(op).__name__} on {ta},{tb} at line {getattr(node, 'lineno', '?')}")

    def _py_binop(self, op, a, b):
        import operator as o
        tbl = {ast.Add: o.add, ast.Sub: o.sub, ast.Mult: o.mul, ast.FloorDiv: o.floordiv, ast.Mod: o.mod,
               ast.LShift: o.lshift, ast.RShift: o.rshift, ast.BitAnd: o.and_, ast.BitOr: o.or_, ast.BitXor: o.xor,
               ast.Div: o.truediv, ast.Pow: o.pow}
        return tbl[type(op)](a, b)

    def enum_int(self, c, v, lo, hi, node):
        """Case split of a symbolic int over a finite range that must be proved (DESIGN 2.2)."""
        t = z(v, "int")
        c.prove("range.split", z3.And(t >= lo, t <= hi), node)
        conds = [t == k for k in range(lo, hi + 1)]
        return lo + c.decide(conds)

    def eq(self, c, a, b):
        """a == b as python bool / z3 Bool."""
        if a is b and not isinstance(a, float):
            return True
        if isinstance(a, Opaque) or isinstance(b, Opaque):
            raise Undecided("comparison with opaque value")
        ta, tb = tag_of(a), tag_of(b)
        if ta in NUM and tb in NUM:
            nt = num_tag(a, b)
            if not isinstance(a, SV) and not isinstance(b, SV):
                return a == b
            return z(a, nt) == z(b, nt)
        if ta != tb:
            return False
        if ta == "bytes":
            if not isinstance(a, SV) and not isinstance(b, SV):
                return bytes(a) == bytes(b)
            if isinstance(a, SV) and not isinstance(b, SV):
                a, b = b, a
            if not isinstance(a, SV):
                lit = bytes(a)
                return z3.And(smt.slen(b.t) == len(lit), *[smt.at(b.t, i) == x for i, x in enumerate(lit)])
            return a.t == b.t
        if ta == "str":
            if not isinstance(a, SV) and not isinstance(b, SV):
                return a == b
            return z(a) == z(b)
        if ta == "none":
            return True
        if ta == "tuple":
            if len(a) != len(b):
                return False
            fs = [self.eq(c, x, y) for x, y in zip(a, b)]
            if any(f is False for f in fs):
                return False
            fs = [f for f in fs if f is not True]
            return z3.And(*fs) if fs else True
        if isinstance(a, Ref) and isinstance(b, Ref):
            if a.id == b.id:
                return True
            ca, cb = c.cell(a), c.cell(b)
            if ca.kind == "list" and cb.kind == "list" and isinstance(ca.data, list) and isinstance(cb.data, list):
                return self.eq(c, tuple(ca.data), tuple(cb.data))
            if ca.kind == "obj":
                return False
            raise Undecided("equality of heap containers")
        if isinstance(a, (Ext, ExcVal, Closure)):
            return a is b
        try:
            return a == b
        except Exception:
            raise Undecided(f"equality on {ta}")

    def compare(self, c, op, a, b, node):
        if isinstance(op, (ast.Is, ast.IsNot)) and (a is None or b is None) and (isinstance(a, OptV) or isinstance(b, OptV)):
            from .values import zn
            o = a if isinstance(a, OptV) else b
            return zn(o) if isinstance(op, ast.Is) else z3.Not(zn(o))
        a, b = c.force(a), c.force(b)
        if isinstance(op, ast.Eq):
            return self.eq(c, a, b)
        if isinstance(op, ast.NotEq):
            r = self.eq(c, a, b)
            return (not r) if isinstance(r, bool) else z3.Not(r)
        if isinstance(op, (ast.Is, ast.IsNot)):
            r = self.identical(a, b)
            return r if isinstance(op, ast.Is) else (not r)
        if isinstance(op, (ast.In, ast.NotIn)):
            r = self.contains(c, b, a, node)
            if isinstance(op, ast.In):
                return r
            return (not r) if isinstance(r, bool) else z3.Not(r)
        nt = num_tag(a, b)
        if nt is None:
            raise py_exc(TypeError, f"ordering comparison of {tag_of(a)} and {tag_of(b)}")
        if not isinstance(a, SV) and not isinstance(b, SV):
            import operator as o
            return {ast.Lt: o.lt, ast.LtE: o.le, ast.Gt: o.gt, ast.GtE: o.ge}[type(op)](a, b)
        x, y = z(a, nt), z(b, nt)
        if isinstance(op, ast.Lt):
            return x < y
        if isinstance(op, ast.LtE):
            return x <= y
        if isinstance(op, ast.Gt):
            return x > y
        if isinstance(op, ast.GtE):
            return x >= y
        raise Undecided(f"comparison {type(op).__name__}")

    def identical(self, a, b):
        if a is None or b is None:
            return a is None and b is None
        if isinstance(a, bool) or isinstance(b, bool):
            if isinstance(a, SV) or isinstance(b, SV):
                sv, lit = (a, b) if isinstance(a, SV) else (b, a)
                if sv.tag == "bool":
                    return sv.t == z3.BoolVal(lit)
                return False
            return a is b
        if isinstance(a, Ref) and isinstance(b, Ref):
            return a.id == b.id
        if isinstance(a, type) or isinstance(b, type):
            return a is b
        if isinstance(a, SV) or isinstance(b, SV):
            raise Undecided("identity test on symbolic scalar")
        return a is b

    def contains(self, c, container, x, node):
        if isinstance(container, (tuple, list)):
            fs = [self.eq(c, x, y) for y in container]
            if any(f is True for f in fs):
                return True
            fs = [f for f in fs if f is not False]
            return z3.Or(*fs) if fs else False
        if isinstance(container, Ref):
            cell = c.cell(container)
            if cell.kind == "list":
                if isinstance(cell.data, SymSeq):
                    return self.symseq_contains(c, cell.data, x)
                if isinstance(cell.data, list):
                    return self.contains(c, tuple(cell.data), x, node)
            if cell.kind == "dict" and "$map" in cell.data:
                return self.e.symmap_get(c, cell, x)[0]
            if cell.kind == "dict":
                ok, k = concrete(x)
                if not ok:
                    raise Undecided("symbolic key membership in dict")
                ent = cell.data.get(k)
                if ent is None:
                    return False
                return True if ent[0] is True else ent[0]
        if isinstance(container, SymSeq):
            return self.symseq_contains(c, container, x)
        if tag_of(container) == "str" and tag_of(x) == "str":
            if not isinstance(container, SV) and not isinstance(x, SV):
                return x in container
            return z3.Contains(z(container), z(x))
        if isinstance(container, dict):
            ok, k = concrete(x)
            if ok:
                return k in container
        raise Undecided(f"membership in {tag_of(container)} at line {getattr(node, 'lineno', '?')}")

    def symseq_contains(self, c, seq, x):
        if seq.fn is None:
            raise Undecided("membership in abstract sequence")
        j = z3.Int("j!in")
        return z3.Exists([j], z3.And(0 <= j, j < z(seq.length, "int"), seq.fn(j) == z(x)))

    # ------------------------------------------------------------------ attributes
    def getattr_(self, c, obj, attr, node):
        obj = c.force(obj)
        if isinstance(obj, Ref):
            cell = c.cell(obj)
            if cell.kind == "obj":
                if attr in cell.data:
                    return cell.data[attr]
                cls = cell.cls
                if cls is not None and hasattr(cls, attr):
                    raw = None
                    for k in cls.__mro__:
                        if attr in k.__dict__:
                            raw = k.__dict__[attr]
                            break
                    if isinstance(raw, staticmethod):
                        return raw.__func__
                    if isinstance(raw, property):
                        return self.e.dispatch_call(c, raw.fget, [obj], {}, node)
                    if isinstance(raw, types.FunctionType):
                        return BoundMethod(obj, raw, attr)
                    return self.e.interp.reflect(raw)
                raise py_exc(AttributeError, f"{cls.__name__ if cls else 'object'} has no attribute {attr}")
            return ValMethod(obj, attr)
        if obj is None:
            raise py_exc(AttributeError, f"'NoneType' object has no attribute '{attr}'")
        if isinstance(obj, types.ModuleType):
            if not hasattr(obj, attr):
                raise py_exc(AttributeError, f"module has no attribute {attr}")
            return self.e.interp.reflect(getattr(obj, attr))
        if isinstance(obj, type):
            if not hasattr(obj, attr):
                raise py_exc(AttributeError, f"type {obj.__name__} has no attribute {attr}")
            return self.e.interp.reflect(getattr(obj, attr))
        if isinstance(obj, ExcVal):
            if attr == "args":
                return tuple(obj.args)
            if attr in obj.attrs:
                return obj.attrs[attr]
            if attr == "errno":
                return obj.attrs.get("errno")
            raise py_exc(AttributeError, f"exception has no attribute {attr}")
        if isinstance(obj, Ext):
            return self.e.ext_getattr(c, obj, attr, node)
        if isinstance(obj, (SV, str, bytes, bytearray, tuple, BigInt, dict)):
            return ValMethod(obj, attr)
        if isinstance(obj, Closure):
            raise Undecided(f"attribute {attr} of function")
        import os as _os
        if obj is _os.environ and attr == "get":
            return getattr(obj, attr)  # handled by the assumed contract real:_Environ.get
        raise Undecided(f"attribute {attr} of {tag_of(obj)} at line {getattr(node, 'lineno', '?')}")

    def ext_setattr(self, c, obj, attr, v, node):
        self.e.ext_setattr(c, obj, attr, v, node)

    # ------------------------------------------------------------------ subscripts
    def subscript(self, c, obj, idx, node):
        obj, idx = c.force(obj), c.force(idx)
        if isinstance(obj, Ref):
            cell = c.cell(obj)
            if cell.kind == "dict" and "$map" in cell.data:
                present, val = self.e.symmap_get(c, cell, idx)
                if not c.branch(present):
                    raise py_exc(KeyError, "key")
                return val
            if cell.kind == "dict":
                ok, k = concrete(idx)
                if not ok:
                    raise Undecided("dict subscript with symbolic key")
                ent = cell.data.get(k)
                if ent is None:
                    raise py_exc(KeyError, k)
                if ent[0] is not True and not c.branch(ent[0]):
                    raise py_exc(KeyError, k)
                return ent[1]
            if cell.kind == "list":
                if isinstance(cell.data, SymSeq):
                    return self.symseq_index(c, cell.data, idx, node)
                if isinstance(cell.data, list):
                    return self.subscript(c, tuple(cell.data), idx, node)
            raise Undecided(f"subscript of heap {cell.kind}")
        if isinstance(obj, SymSeq):
            return self.symseq_index(c, obj, idx, node)
        if isinstance(obj, tuple):
            ok, i = concrete(idx)
            if not ok:
                if obj and all(isinstance(x, int) and not isinstance(x, bool) for x in obj) and tag_of(idx) == "int":
                    it = z(idx, "int")
                    if not c.branch(z3.And(it >= 0, it < len(obj))):
                        if c.branch(z3.And(it < 0, it >= -len(obj))):
                            raise Undecided("negative symbolic index into a table")
                        raise py_exc(IndexError, "list index out of range")
                    runs = []
                    for j, x in enumerate(obj):
                        if not runs or runs[-1][1] != x:
                            runs.append((j, x))
                    t = z3.IntVal(runs[-1][1])
                    for j in range(len(runs) - 2, -1, -1):
                        t = z3.If(it < runs[j + 1][0], runs[j][1], t)
                    return mk("int", t)
                raise Undecided(f"symbolic index into a tuple at line {getattr(node, 'lineno', '?')}")
            if not isinstance(i, int):
                raise py_exc(TypeError, "tuple indices must be integers")
            if not -len(obj) <= i < len(obj):
                raise py_exc(IndexError, "tuple index out of range")
            return obj[i]
        if tag_of(obj) == "bytes":
            ok, i = concrete(idx)
            t = as_bytes_term(obj)
            if not isinstance(obj, SV) and ok:
                if not -len(obj) <= i < len(obj):
                    raise py_exc(IndexError, "index out of range")
                return obj[i]
            if ok and i < 0:
                it = smt.slen(t) + i
            else:
                it = z(idx, "int")
            if not c.branch(z3.And(it >= 0, it < smt.slen(t))):
                raise py_exc(IndexError, "index out of range")
            return mk("int", smt.at(t, it))
        if tag_of(obj) == "str":
            t = as_str_term(obj)
            it = z(idx, "int")
            if not c.branch(z3.And(it >= 0, it < z3.Length(t))):
                ok, i = concrete(idx)
                if ok and i < 0:
                    raise Undecided("negative string index")
                raise py_exc(IndexError, "string index out of range")
            return mk("str", z3.SubString(t, it, 1))
        if isinstance(obj, dict):
            ok, k = concrete(idx)
            if ok:
                if k not in obj:
                    raise py_exc(KeyError, k)
                return self.e.interp.reflect(obj[k])
        if obj is None:
            raise py_exc(TypeError, "'NoneType' object is not subscriptable")
        raise Undecided(f"subscript of {tag_of(obj)} at line {getattr(node, 'lineno', '?')}")

    def symseq_index(self, c, seq, idx, node):
        it = z(idx, "int")
        if not c.branch(z3.And(it >= 0, it < z(seq.length, "int"))):
            raise py_exc(IndexError, "list index out of range")
        return seq.elem(c, idx)

    def store_subscript(self, c, obj, idx, v, node):
        if isinstance(obj, Ref):
            cell = c.cell(obj)
            ok, k = concrete(idx)
            if cell.kind == "dict":
                if not ok or "$map" in cell.data:
                    return self.e.symdict_store(c, obj, idx, v, node)
                cell.data[k] = (True, v)
                return
            if cell.kind == "list" and isinstance(cell.data, list) and ok:
                if not -len(cell.data) <= k < len(cell.data):
                    raise py_exc(IndexError, "list assignment index out of range")
                cell.data[k] = v
                return
        if isinstance(obj, Ext) and f"ext:{obj.kind}.__setitem__" in self.e.contracts:
            return self.e.call_ext(c, obj, "__setitem__", [idx, v], {}, node)
        raise Undecided(f"subscript store on {tag_of(obj)}")

    def slice_(self, c, obj, lo, hi, node):
        obj, lo, hi = c.force(obj), c.force(lo), c.force(hi)
        if isinstance(obj, (tuple,)):
            okl, l = concrete(lo) if lo is not None else (True, None)
            okh, h = concrete(hi) if hi is not None else (True, None)
            if okl and okh:
                return obj[l:h]
            raise Undecided("symbolic slice of tuple")
        if isinstance(obj, Ref) and c.cell(obj).kind == "list" and isinstance(c.cell(obj).data, list):
            okl, l = concrete(lo) if lo is not None else (True, None)
            okh, h = concrete(hi) if hi is not None else (True, None)
            if okl and okh:
                return c.alloc("list", None, c.cell(obj).data[l:h])
            raise Undecided("symbolic slice of list")
        if isinstance(obj, SymSeq) or (isinstance(obj, Ref) and isinstance(c.cell(obj).data, SymSeq)):
            seq = obj if isinstance(obj, SymSeq) else c.cell(obj).data
            okl, l = concrete(lo) if lo is not None else (True, 0)
            okh, h = concrete(hi) if hi is not None else (True, None)
            if okl and okh and l == 0 and h is not None and h >= 0:
                # prefix of fixed length: exact only if the sequence is long enough
                if not c.branch(z(seq.length, "int") >= h):
                    raise Undecided("short symbolic sequence sliced")
                return tuple(seq.elem(c, i) for i in range(h))
            raise Undecided("slice of abstract sequence")
        tg = tag_of(obj)
        if tg == "bytes":
            if not isinstance(obj, SV) and all(x is None or not isinstance(x, SV) for x in (lo, hi)):
                return bytes(obj)[lo:hi]
            t = as_bytes_term(obj)
            lt = z(lo, "int") if lo is not None else z3.IntVal(0)
            ht = z(hi, "int") if hi is not None else smt.slen(t)
            for q in (lt, ht):
                if not c.branch(q >= 0):
                    raise Undecided(f"negative slice bound at line {getattr(node, 'lineno', '?')}")
            return mk("bytes", smt.slc(t, lt, ht), getattr(obj, "sub", None))
        if tg == "str":
            if not isinstance(obj, SV) and all(x is None or not isinstance(x, SV) for x in (lo, hi)):
                return obj[lo:hi]
            t = as_str_term(obj)
            lt = z(lo, "int") if lo is not None else z3.IntVal(0)
            ht = z(hi, "int") if hi is not None else z3.Length(t)
            for q in (lt, ht):
                if not c.branch(q >= 0):
                    raise Undecided("negative slice bound")
            return mk("str", z3.SubString(t, lt, z3.If(ht - lt > 0, ht - lt, 0)))
        raise Undecided(f"slice of {tg}")

    # ------------------------------------------------------------------ strings
    def to_str(self, c, x, node=None):
        if isinstance(x, str):
            return x
        if isinstance(x, SV) and x.tag == "str":
            return x
        if isinstance(x, bool) or x is None:
            return str(x)
        if isinstance(x, int):
            return str(x)
        if isinstance(x, SV) and x.tag == "int":
            if c.branch(x.t >= 0):
                return mk("str", z3.IntToStr(x.t))
            return mk("str", z3.Concat(z3.StringVal("-"), z3.IntToStr(-x.t)))
        return Opaque("str()")

    def str_concat(self, c, parts):
        if any(isinstance(p, Opaque) for p in parts):
            return SV("str", smt.fresh(smt.S, "fstr"))
        if all(isinstance(p, str) for p in parts):
            return "".join(parts)
        ts = [as_str_term(p) for p in parts if not (isinstance(p, str) and p == "")]
        if len(ts) == 1:
            return mk("str", ts[0])
        return mk("str", z3.Concat(*ts))

    # ------------------------------------------------------------------ locks (C12 hooks overridable)
    def lock_acquire(self, c, m, node):
        if isinstance(m, Ext) and m.kind in ("Lock", "NoLock"):
            c.locks.append(m)
            h = self.e.lock_hooks.get("acquire")
            if h:
                h(c, m, node)
            return
        if isinstance(m, Ref) and c.cell(m).cls is not None and c.cell(m).cls.__name__ == "NoLock":
            return
        raise Undecided(f"with-statement on {tag_of(m)}")

    def lock_release(self, c, m, node, exceptional):
        if isinstance(m, Ext) and m.kind in ("Lock", "NoLock"):
            h = self.e.lock_hooks.get("release")
            if h:
                h(c, m, node, exceptional)
            if m in c.locks:
                c.locks.remove(m)

    def symbolic_comprehension(self, c, interp, e):
        h = self.e.comprehension_hooks.get((c.frames[-1].qual, e.lineno - c.frames[-1].fnode.lineno))
        for hook in self.e.comprehension_hooks.get(c.frames[-1].qual, []):
            r = hook(c, interp, e)
            if r is not None:
                return r
        return None

    # ------------------------------------------------------------------ builtin calls
    def _install(self):
        T = self.call_table
        T[len] = self.b_len
        T[int] = self.b_int
        T[bool] = lambda c, a, k, n: self._boolv(truth(c, a[0]) if a else False)
        T[float] = self.b_float
        T[str] = self.b_str
        T[repr] = lambda c, a, k, n: Opaque("repr")
        T[isinstance] = self.b_isinstance
        T[callable] = self.b_callable
        T[min] = self.b_min
        T[max] = lambda c, a, k, n: self.b_min(c, a, k, n, mx=True)
        T[chr] = self.b_chr
        T[any] = lambda c, a, k, n: self._anyall(c, a[0], n, z3.Or, False)
        T[all] = lambda c, a, k, n: self._anyall(c, a[0], n, z3.And, True)
        T[sum] = self.b_sum
        T[map] = self.b_map
        T[filter] = self.b_filter
        T[sorted] = self.b_sorted
        T[type] = self.b_type
        T[range] = self.b_range
        T[hasattr] = self.b_hasattr
        T[tuple] = lambda c, a, k, n: tuple(self.e.interp.iterate(c, a[0], n)) if a else ()
        T[list] = lambda c, a, k, n: c.alloc("list", None, list(self.e.interp.iterate(c, a[0], n)) if a else [])
        T[struct.pack] = self.b_pack
        T[struct.unpack] = self.b_unpack
        T[array.array] = self.b_array
        T[int.from_bytes] = self.b_from_bytes
        T[bytes] = self.b_bytes

    def _boolv(self, t):
        return t if isinstance(t, bool) else mk("bool", t)

    def b_len(self, c, a, k, n):
        v = a[0]
        if isinstance(v, SV):
            if v.tag == "bytes":
                return mk("int", smt.slen(v.t))
            if v.tag == "str":
                return mk("int", z3.Length(v.t))
            raise py_exc(TypeError, f"object of type {v.tag} has no len()")
        if isinstance(v, Ref):
            d = c.cell(v).data
            if isinstance(d, list):
                return len(d)
            if isinstance(d, SymSeq):
                return d.length
            if isinstance(d, Rope):
                raise Undecided("len of rope")
            if isinstance(d, dict) and all(p is True for p, _ in d.values()):
                return len(d)
            raise Undecided("len of symbolic dict")
        if isinstance(v, SymSeq):
            return v.length
        if isinstance(v, (str, bytes, bytearray, tuple, list, dict)):
            return len(v)
        if v is None or isinstance(v, (int, float)):
            raise py_exc(TypeError, f"object of type {type(v).__name__} has no len()")
        raise Undecided(f"len of {tag_of(v)}")

    def b_int(self, c, a, k, n):
        if not a:
            return 0
        v = a[0]
        tg = tag_of(v)
        if tg in ("int", "bool"):
            return v if not isinstance(v, SV) or v.tag == "int" else mk("int", z(v, "int"))
        if tg == "str":
            return self.e.str_to_int(c, v, n)
        if tg == "real":
            raise Undecided("int(float)")
        if v is None:
            raise py_exc(TypeError, "int() argument must be a string or a number, not 'NoneType'")
        raise Undecided(f"int({tg})")

    def b_float(self, c, a, k, n):
        if not a:
            return 0.0
        v = a[0]
        if isinstance(v, (int, float)) and not isinstance(v, SV):
            return float(v)
        if tag_of(v) in NUM:
            return mk("real", z(v, "real"))
        raise Undecided("float() of non-number")

    def b_str(self, c, a, k, n):
        if not a:
            return ""
        if isinstance(a[0], ExcVal):
            return SV("str", smt.fresh(smt.S, "excstr"))
        r = self.to_str(c, a[0], n)
        if isinstance(r, Opaque):
            return SV("str", smt.fresh(smt.S, "str"))
        return r

    def b_isinstance(self, c, a, k, n):
        v, cls = a
        classes = cls if isinstance(cls, tuple) else (cls,)
        tg = tag_of(v)
        for k_ in classes:
            if k_ is str and tg == "str":
                return True
            if k_ is bytes and tg == "bytes" and getattr(v, "sub", None) != "bytearray" and not isinstance(v, bytearray):
                return True
            if k_ is bytearray and tg == "bytes" and (getattr(v, "sub", None) == "bytearray" or isinstance(v, bytearray)):
                return True
            if k_ is int and tg in ("int", "bool"):
                return True
            if k_ is bool and tg == "bool":
                return True
            if k_ is float and tg == "real":
                return True
            if k_ is dict and tg == "dict":
                return True
            if k_ is list and tg == "list":
                return True
            if k_ is tuple and tg == "tuple":
                return True
            if isinstance(v, ExcVal) and isinstance(k_, type) and issubclass(v.cls, k_):
                return True
            if isinstance(v, Ref) and v.kind == "obj" and isinstance(k_, type) and c.cell(v).cls is not None \
                    and issubclass(c.cell(v).cls, k_):
                return True
            if isinstance(v, Ext):
                r = self.e.ext_isinstance(c, v, k_)
                if r is None:
                    raise Undecided(f"isinstance of external {v.kind} against {k_}")
                if r:
                    return True
        if isinstance(v, (Opaque, BigInt)):
            raise Undecided("isinstance of opaque value")
        return False

    def b_callable(self, c, a, k, n):
        v = a[0]
        if isinstance(v, (Closure, BoundMethod, ValMethod, types.FunctionType, types.BuiltinFunctionType, type)):
            return True
        if isinstance(v, Ext):
            return bool(v.attrs.get("callable"))
        return False

    def b_min(self, c, a, k, n, mx=False):
        vals = list(a) if len(a) > 1 else self.e.interp.iterate(c, a[0], n)
        r = vals[0]
        for v in vals[1:]:
            nt = num_tag(r, v)
            if nt is None:
                raise Undecided("min/max of non-numbers")
            if not isinstance(r, SV) and not isinstance(v, SV):
                r = max(r, v) if mx else min(r, v)
                continue
            x, y = z(r, nt), z(v, nt)
            r = mk(nt, z3.If(y > x, y, x) if mx else z3.If(y < x, y, x))
        return r

    def b_chr(self, c, a, k, n):
        v = a[0]
        if tag_of(v) not in ("int", "bool"):
            raise py_exc(TypeError, "an integer is required")
        if not isinstance(v, SV):
            return chr(v)
        t = z(v, "int")
        if not c.branch(z3.And(t >= 0, t < 0x110000)):
            raise py_exc(ValueError, "chr() arg not in range(0x110000)")
        return SV("str", self.e.chr_term(t), ("chr", t))

    def _anyall(self, c, it, n, conn, unit_):
        items = self.e.interp.iterate(c, it, n)
        ts = [truth(c, x) for x in items]
        if all(isinstance(t, bool) for t in ts):
            return any(ts) if conn is z3.Or else all(ts)
        ts = [z3.BoolVal(t) if isinstance(t, bool) else t for t in ts]
        return mk("bool", conn(*ts))

    def b_sum(self, c, a, k, n):
        it = a[0]
        if isinstance(it, tuple) and len(it) == 3 and it[0] == "$map":
            _, f, seq = it
            if f is len and isinstance(seq, Ref):
                d = c.cell(seq).data
                if isinstance(d, Rope):
                    return mk("int", smt.slen(d.joined))
                if isinstance(d, list):
                    tot = 0
                    for x in d:
                        tot = self.binop(c, ast.Add(), tot, self.b_len(c, [x], {}, n), n)
                    return tot
            raise Undecided("sum(map(..)) shape")
        tot = 0
        for x in self.e.interp.iterate(c, it, n):
            tot = self.binop(c, ast.Add(), tot, x, n)
        return tot

    def b_map(self, c, a, k, n):
        return ("$map", a[0], a[1])

    def b_sorted(self, c, a, k, n):
        """sorted() of a list of known length whose elements are (symbolic) strings: a deterministic compare-exchange network over
        z3's code-point order on strings (Python compares str by code point too); lengths 0..4, no key / reverse."""
        if k:
            raise Undecided("sorted() with key / reverse")
        xs = list(self.e.interp.iterate(c, a[0], n))
        if len(xs) <= 1:
            return c.alloc("list", None, xs)
        is_pair = all(isinstance(x, tuple) and len(x) == 2 and all(tag_of(y) == "str" for y in x) for x in xs)
        if len(xs) > 4 or not (is_pair or all(tag_of(x) == "str" for x in xs)):
            raise Undecided("sorted() of more than 4 elements or of elements other than strings / pairs of strings")
        ts = [tuple(as_str_term(y) for y in x) if is_pair else (as_str_term(x),) for x in xs]

        def le(a, b):  # tuple comparison: lexicographic
            if len(a) == 1:
                return a[0] <= b[0]
            return z3.Or(a[0] < b[0], z3.And(a[0] == b[0], a[1] <= b[1]))

        def cx(i, j):
            cnd = le(ts[i], ts[j])
            lo = tuple(z3.If(cnd, x, y) for x, y in zip(ts[i], ts[j]))
            hi = tuple(z3.If(cnd, y, x) for x, y in zip(ts[i], ts[j]))
            ts[i], ts[j] = lo, hi
        net = {2: [(0, 1)], 3: [(0, 1), (1, 2), (0, 1)], 4: [(0, 1), (2, 3), (0, 2), (1, 3), (1, 2)]}[len(ts)]
        for (i, j) in net:
            cx(i, j)
        return c.alloc("list", None, [tuple(mk("str", y) for y in t) if is_pair else mk("str", t[0]) for t in ts])

    def b_filter(self, c, a, k, n):
        f, it = a
        out = []
        for x in self.e.interp.iterate(c, it, n):
            t = truth(c, x) if f is None else truth(c, self.e.dispatch_call(c, f, [x], {}, n))
            if c.branch(t):
                out.append(x)
        return tuple(out)

    def b_type(self, c, a, k, n):
        v = a[0]
        tg = tag_of(v)
        m = {"str": str, "int": int, "bool": bool, "bytes": bytes, "real": float, "none": type(None),
             "tuple": tuple, "list": list, "dict": dict}
        if isinstance(v, ExcVal):
            return v.cls
        if isinstance(v, Ref) and v.kind == "obj":
            return c.cell(v).cls
        if tg in m:
            return m[tg]
        raise Undecided(f"type() of {tg}")

    def b_range(self, c, a, k, n):
        vals = [concrete(x) for x in a]
        if all(ok for ok, _ in vals):
            return range(*[v for _, v in vals])
        if len(a) == 1:
            t = z(a[0], "int")
            ln = mk("int", z3.If(t > 0, t, 0))
            return SymSeq(ln, lambda c, i: i, "range")
        raise Undecided("symbolic range with start/step")

    def b_hasattr(self, c, a, k, n):
        v, name = a
        if isinstance(v, Ext):
            return self.e.ext_hasattr(c, v, name)
        if isinstance(v, (types.ModuleType, type)):
            return hasattr(v, name)
        if isinstance(v, Ref) and v.kind == "obj":
            return c.hasf(v, name) or (c.cell(v).cls is not None and hasattr(c.cell(v).cls, name))
        raise Undecided("hasattr")

    def b_bytes(self, c, a, k, n):
        if not a:
            return b""
        if tag_of(a[0]) == "bytes":
            return mk("bytes", as_bytes_term(a[0])) if isinstance(a[0], SV) else bytes(a[0])
        raise Undecided("bytes() of non-bytes")

    def b_pack(self, c, a, k, n):
        fmt, v = a[0], a[1]
        if fmt not in ("!H", "!Q", "!I") or len(a) != 2:
            raise Undecided(f"struct.pack format {fmt!r}")
        nb = {"!H": 2, "!I": 4, "!Q": 8}[fmt]
        if tag_of(v) not in ("int", "bool"):
            raise py_exc(struct.error, "required argument is not an integer")
        t = z(v, "int")
        if not c.branch(z3.And(t >= 0, t < 256 ** nb)):
            raise py_exc(struct.error, "argument out of range")
        qs = [t]
        for _ in range(nb - 1):
            qs.append(qs[-1] / 256)
        parts = [smt.unit(qs[nb - 1 - i] % 256) for i in range(nb)]
        return mk("bytes", smt.cat_all(parts))

    def b_unpack(self, c, a, k, n):
        fmt, v = a[0], a[1]
        if fmt not in ("!H", "!Q", "!I"):
            raise Undecided(f"struct.unpack format {fmt!r}")
        nb = {"!H": 2, "!I": 4, "!Q": 8}[fmt]
        if tag_of(v) != "bytes":
            raise py_exc(TypeError, "a bytes-like object is required")
        t = as_bytes_term(v)
        if not c.branch(smt.slen(t) == nb):
            raise py_exc(struct.error, f"unpack requires a buffer of {nb} bytes")
        val = z3.Sum([smt.at(t, i) * (256 ** (nb - 1 - i)) for i in range(nb)])
        return (mk("int", val),)

    def b_array(self, c, a, k, n):
        if a[0] != "B":
            raise Undecided("array typecode")
        v = a[1]
        if tag_of(v) != "bytes":
            raise py_exc(TypeError, "cannot use a str to initialize an array with typecode 'B'")
        return v if isinstance(v, SV) else mk("bytes", as_bytes_term(v))

    def b_from_bytes(self, c, a, k, n):
        v, order = a[0], a[1] if len(a) > 1 else k.get("byteorder", "big")
        if tag_of(v) != "bytes":
            raise py_exc(TypeError, "cannot convert object to bytes")
        return BigInt(as_bytes_term(v), order)
