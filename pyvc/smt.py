"""SMT layer: axiomatised byte-sequence sort, bit-operation facts, discharge of obligations.

Trusted axioms are listed in DESIGN.md section 2.3; every axiom below is a fact about
Python bytes / ints in the intended model (finite sequences of ints in [0,256)).
"""
import time
import z3

Int, Bool, Real = z3.IntSort(), z3.BoolSort(), z3.RealSort()
Sq = z3.DeclareSort("Sq")
slen = z3.Function("len", Sq, Int)
at = z3.Function("at", Sq, Int, Int)
cat = z3.Function("cat", Sq, Sq, Sq)
slc = z3.Function("slice", Sq, Int, Int, Sq)  # python s[lo:hi], 0 <= lo, hi; clamps at len
rep = z3.Function("rep", Sq, Int, Sq)  # python s * k
unit = z3.Function("unit", Int, Sq)
empty = z3.Const("empty", Sq)
bxor = z3.Function("bxor", Int, Int, Int)
xormask = z3.Function("xormask", Sq, Sq, Sq)  # spec: data xor key cyclically (key of length 4)
bor = z3.Function("bor", Int, Int, Int)
band = z3.Function("band", Int, Int, Int)
# uninterpreted library functions (A-UTF8, A-B64/A-SHA1)
wf_utf8 = z3.Function("wf_utf8", Sq, Bool)  # given meaning by C06's automaton lemma only
S = z3.StringSort()
utf8_dec = z3.Function("utf8_dec", Sq, S)
utf8_enc = z3.Function("utf8_enc", S, Sq)

_cnt = [0]


def fresh(sort, hint="v"):
    _cnt[0] += 1
    return z3.Const(f"{hint}!{_cnt[0]}", sort)


def reset_names():
    _cnt[0] = 0


def _axioms():
    a, b = z3.Consts("a b", Sq)
    i, k, x, y, lo, hi = z3.Ints("i k x y lo hi")
    ax = []
    A = lambda vs, body, pats: ax.append(z3.ForAll(vs, body, patterns=pats))
    A([a], slen(a) >= 0, [slen(a)])
    ax.append(slen(empty) == 0)
    A([x], slen(unit(x)) == 1, [unit(x)])
    A([x], z3.Implies(z3.And(0 <= x, x < 256), at(unit(x), 0) == x), [unit(x)])
    A([a, i], z3.And(0 <= at(a, i), at(a, i) < 256), [at(a, i)])
    A([a, b], slen(cat(a, b)) == slen(a) + slen(b), [cat(a, b)])
    A([a, b, i], z3.Implies(z3.And(0 <= i, i < slen(a)), at(cat(a, b), i) == at(a, i)), [at(cat(a, b), i)])
    A([a, b, i], z3.Implies(z3.And(slen(a) <= i, i < slen(a) + slen(b)), at(cat(a, b), i) == at(b, i - slen(a))),
      [at(cat(a, b), i)])
    clo = z3.If(lo > slen(a), slen(a), lo)
    chi = z3.If(hi > slen(a), slen(a), hi)
    A([a, lo, hi], z3.Implies(z3.And(0 <= lo, 0 <= hi),
                              slen(slc(a, lo, hi)) == z3.If(chi - clo > 0, chi - clo, 0)), [slc(a, lo, hi)])
    A([a, lo, hi, i], z3.Implies(z3.And(0 <= lo, 0 <= hi, 0 <= i, i < chi - clo),
                                 at(slc(a, lo, hi), i) == at(a, lo + i)), [at(slc(a, lo, hi), i)])
    A([a, k], z3.Implies(k >= 0, slen(rep(a, k)) == k * slen(a)), [rep(a, k)])
    A([a, k, i], z3.Implies(z3.And(k >= 0, slen(a) > 0, 0 <= i, i < k * slen(a)),
                            at(rep(a, k), i) == at(a, i % slen(a))), [at(rep(a, k), i)])
    # byte xor: involution, unit, range (each discharged over 8-bit vectors by selfcheck())
    A([x, y], z3.Implies(z3.And(0 <= x, x < 256, 0 <= y, y < 256),
                         z3.And(0 <= bxor(x, y), bxor(x, y) < 256, bxor(bxor(x, y), y) == x)), [bxor(x, y)])
    A([x], z3.Implies(z3.And(0 <= x, x < 256), bxor(x, 0) == x), [bxor(x, 0)])
    A([a, b], slen(xormask(a, b)) == slen(a), [xormask(a, b)])
    A([a, b, i], z3.Implies(z3.And(0 <= i, i < slen(a)), at(xormask(a, b), i) == bxor(at(a, i), at(b, i % 4))),
      [at(xormask(a, b), i)])
    return ax


AXIOMS = _axioms()


def seq_eq(a, b):
    """Goal form of a == b for sequences (pointwise; skolemised by the solver when negated)."""
    i = z3.Int("i!eq")
    body = z3.Implies(z3.And(0 <= i, i < slen(a)), at(a, i) == at(b, i))
    pats = [at(t, i) for t in (a, b) if z3.is_app(t) and t.decl().kind() == z3.Z3_OP_UNINTERPRETED and not has_ite(t)]
    try:
        q = z3.ForAll([i], body, patterns=pats) if pats else z3.ForAll([i], body)
    except z3.Z3Exception:
        q = z3.ForAll([i], body)
    return z3.And(slen(a) == slen(b), q)


def has_ite(t):
    return (z3.is_app(t) and t.decl().kind() == z3.Z3_OP_ITE) or any(has_ite(ch) for ch in t.children())


def cat_all(parts):
    r = None
    for p in parts:
        r = p if r is None else cat(r, p)
    return empty if r is None else r


def bytes_lit(bs):
    """Concrete bytes -> Sq term plus nothing else (facts follow from unit/cat axioms)."""
    return cat_all([unit(z3.IntVal(x)) for x in bs])


def bitfacts_or(a, b):
    """Ground facts about bor(a,b) (python a | b on non-negative ints): disjoint bit fields add."""
    fs = []
    for k in range(0, 9):
        p = 2 ** k
        fs.append(z3.Implies(z3.And(a >= 0, a % p == 0, 0 <= b, b < p), bor(a, b) == a + b))
        fs.append(z3.Implies(z3.And(b >= 0, b % p == 0, 0 <= a, a < p), bor(a, b) == a + b))
    return fs


def mk_solver(timeout_ms, mbqi=False):
    s = z3.Solver()
    s.set("timeout", int(timeout_ms))
    if not mbqi:
        s.set("auto_config", False)
        s.set("smt.mbqi", False)
    for ax in AXIOMS:
        s.add(ax)
    return s


def check_sat(formulas, timeout_ms=2000):
    """Feasibility of a path condition: 'sat' | 'unsat' | 'unknown'."""
    s = mk_solver(timeout_ms)
    s.add(*formulas)
    return str(s.check())


def discharge(hyps, goal, timeout_ms=10000):
    """Try to prove hyps => goal.  Returns dict(verdict, backend, time_s, reason, model)."""
    t0 = time.time()
    s = mk_solver(timeout_ms)
    s.add(*hyps)
    s.add(z3.Not(goal))
    r = s.check()
    el = time.time() - t0
    if r == z3.unsat:
        return dict(verdict="discharged", backend="z3-ematch", time_s=el)
    if r == z3.sat:
        return dict(verdict="failed", backend="z3-ematch", time_s=el, reason="sat", model=_model(s))
    reason = s.reason_unknown()
    if "incomplete" in reason:
        # E-matching saturated: a candidate counter-model exists.  Model pass (DESIGN 2.8 step 4): the
        # quantified axioms are replaced by their instances on the ground terms of the obligation.
        r2, m = ground_pass(hyps, goal, min(timeout_ms, 8000))
        el = time.time() - t0
        if r2 == "unsat":
            return dict(verdict="discharged", backend="z3-ground-instances", time_s=el)
        return dict(verdict="failed", backend="z3-ematch+ground", time_s=el,
                    reason="sat (ground-instantiated)" if r2 == "sat" else "saturated (incomplete quantifiers)", model=m)
    return dict(verdict="undecided", backend="z3-ematch", time_s=el, reason=reason)


def _ground_terms(fs):
    """Ground sub-terms (no bound variables) of sort Sq, and Int terms used as sequence indices."""
    sq, ints, seen = {}, {}, set()

    cache = {}

    def has_var(t):
        k = t.get_id()
        if k in cache:
            return cache[k]
        if z3.is_var(t):
            r = True
        elif z3.is_quantifier(t):
            r = True
        else:
            r = any(has_var(ch) for ch in t.children())
        cache[k] = r
        return r

    def walk(t):
        k = t.get_id()
        if k in seen:
            return
        seen.add(k)
        if z3.is_quantifier(t):
            walk(t.body())
            return
        for ch in t.children():
            walk(ch)
        if z3.is_var(t) or has_var(t):
            return
        if t.sort() == Sq:
            sq[k] = t
        elif z3.is_app(t) and t.decl().name() in ("at", "slice", "rep", "ustate", "umark"):
            for ch in t.children()[1:]:
                if ch.sort() == Int and not has_var(ch):
                    ints[ch.get_id()] = ch
    for f in fs:
        walk(f)
    return list(sq.values()), list(ints.values())


def ground_pass(hyps, goal, timeout_ms, cap=6000):
    g = z3.Goal()
    g.add(*hyps)
    g.add(z3.Not(goal))
    try:
        sk = z3.Tactic("snf")(g)[0]
        fs = [sk[i] for i in range(len(sk))]
    except z3.Z3Exception:
        fs = list(hyps) + [z3.Not(goal)]
    fs = fs + list(AXIOMS)
    quants = [f for f in fs if z3.is_quantifier(f) and f.is_forall()]
    ground = [f for f in fs if not (z3.is_quantifier(f) and f.is_forall())]
    insts = []

    def heads(t, acc):
        if z3.is_app(t) and t.decl().kind() == z3.Z3_OP_UNINTERPRETED and t.num_args() > 0:
            acc.add(t.decl().name())
        for ch in t.children():
            heads(ch, acc)
        if z3.is_quantifier(t):
            heads(t.body(), acc)
        return acc
    present = set()
    for f in ground + [q for q in quants if q not in AXIOMS]:
        heads(f, present)

    def relevant(q):
        if q.num_patterns() == 0:
            return True
        for pi in range(q.num_patterns()):
            if heads(q.pattern(pi), set()) <= present:
                return True
        return False
    quants = [q for q in quants if relevant(q)]
    for rnd in range(2):
        sq, ints = _ground_terms(ground + insts)
        ints = ints + [z3.IntVal(0), z3.IntVal(1)]
        new = []
        for q in quants:
            nv = q.num_vars()
            doms = []
            for j in range(nv):
                srt = q.var_sort(j)
                doms.append(sq if srt == Sq else ints if srt == Int else None)
            if any(d is None for d in doms):
                continue
            tot = 1
            for d in doms:
                tot *= max(1, len(d))
            if tot > cap:
                doms = [d[:max(1, int(cap ** (1.0 / nv)))] for d in doms]
            import itertools
            for combo in itertools.product(*doms):
                # substitute_vars: var index 0 is the LAST bound variable
                new.append(z3.substitute_vars(q.body(), *reversed(combo)))
        insts = new
    s = z3.Solver()
    s.set("timeout", int(timeout_ms))
    s.add(*ground)
    s.add(*insts)
    r = s.check()
    if r == z3.sat:
        return "sat", _model(s)
    return str(r), None


def _model(s):
    try:
        m = s.model()
    except z3.Z3Exception:
        return None
    out = {}
    for d in m.decls():
        if d.arity() == 0:
            v = m[d]
            out[d.name()] = str(v)
    return out


def selfcheck():
    """Discharge the bxor facts over 8-bit vectors and check the axiom set is not contradictory."""
    x, y = z3.BitVecs("x y", 8)
    s = z3.Solver()
    s.add(z3.Not(z3.And((x ^ y) ^ y == x, x ^ 0 == x)))
    ok1 = s.check() == z3.unsat
    s = mk_solver(5000)
    ok2 = s.check() != z3.unsat
    return ok1 and ok2
