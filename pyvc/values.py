"""Value model of the symbolic executor (DESIGN.md section 2.2)."""
import z3
from . import smt


class SV:
    """Symbolic scalar / sequence value.  tag in int|bool|real|bytes|str ; t is a z3 term."""
    __slots__ = ("tag", "t", "sub")

    def __init__(self, tag, t, sub=None):
        self.tag, self.t, self.sub = tag, t, sub  # sub: 'bytearray' for bytes, else None

    def __repr__(self):
        return f"SV<{self.tag}:{self.t}>"


class Ref:
    """Reference to a heap cell (object, list, dict)."""
    __slots__ = ("id", "kind", "cls")

    def __init__(self, id, kind, cls=None):
        self.id, self.kind, self.cls = id, kind, cls

    def __repr__(self):
        return f"Ref<{self.kind}:{self.cls if self.cls is not None else ''}#{self.id}>"


class Rope:
    """Abstract content of a list of bytes objects: only its concatenation is known."""
    __slots__ = ("joined",)

    def __init__(self, joined):
        self.joined = joined


class SymSeq:
    """Abstract immutable/mutable sequence (list/tuple) of symbolic length with elements of one shape.
    elem(i) gives the i-th element value."""
    __slots__ = ("length", "elem", "name", "fn")

    def __init__(self, length, elem, name="seq", fn=None):
        # fn: optional z3 function Int -> element term (enables membership tests as quantified formulas)
        self.length, self.elem, self.name, self.fn = length, elem, name, fn


class Ext:
    """Opaque external handle (socket, SSLContext, selector, Event, Thread, Lock ...)."""
    __slots__ = ("kind", "id", "attrs")

    def __init__(self, kind, id, attrs=None):
        self.kind, self.id, self.attrs = kind, id, attrs or {}

    def __repr__(self):
        return f"Ext<{self.kind}#{self.id}>"


class ExcVal:
    """Exception instance: real class + argument values (+ attributes)."""
    __slots__ = ("cls", "args", "attrs")

    def __init__(self, cls, args=(), attrs=None):
        self.cls, self.args, self.attrs = cls, tuple(args), attrs or {}

    def __repr__(self):
        return f"ExcVal<{self.cls.__name__}>"


class BigInt:
    """Result of int.from_bytes(seq, order): remembered so that A-INTXOR can be applied."""
    __slots__ = ("seq", "order", "xor_with")

    def __init__(self, seq, order, xor_with=None):
        self.seq, self.order, self.xor_with = seq, order, xor_with


class Closure:
    """Nested function defined in a frame (def inside def)."""
    __slots__ = ("node", "frame", "qual")

    def __init__(self, node, frame, qual):
        self.node, self.frame, self.qual = node, frame, qual


class BoundMethod:
    __slots__ = ("self_", "func", "name")

    def __init__(self, self_, func, name):
        self.self_, self.func, self.name = self_, func, name


class ValMethod:
    """Method of a non-heap value (bytes.decode, str.split, list.append ...)."""
    __slots__ = ("val", "name")

    def __init__(self, val, name):
        self.val, self.name = val, name


class OptV:
    """Value that is None exactly when `isnone` holds, else `val` (lazy fork: decided only when inspected)."""
    __slots__ = ("isnone", "val")

    def __init__(self, isnone, val):
        self.isnone, self.val = isnone, val

    def __repr__(self):
        return f"OptV<{self.isnone}?None:{self.val!r}>"


class IteV(OptV):
    """Lazy choice between two values: `a` when cond holds, else `b` (decided only when inspected).
    Sub-class of OptV so that every place that forces lazily optional values handles it."""
    __slots__ = ("cond", "a", "b")

    def __init__(self, cond, a, b):
        self.cond, self.a, self.b = cond, a, b
        self.isnone, self.val = None, None


def isnone(v):
    if isinstance(v, IteV):
        na, nb = isnone(v.a), isnone(v.b)
        na = z3.BoolVal(na) if isinstance(na, bool) else na
        nb = z3.BoolVal(nb) if isinstance(nb, bool) else nb
        return z3.If(v.cond, na, nb)
    return _isnone(v)


def _isnone(v):
    """None-ness of a value as python bool or z3 Bool."""
    if isinstance(v, OptV):
        return v.isnone
    return v is None


def unopt(v):
    return v.val if isinstance(v, OptV) else v


class Opaque:
    """Value the executor knows nothing about (repr() output, log strings ...)."""
    __slots__ = ("what",)

    def __init__(self, what="opaque"):
        self.what = what


def is_sym(v):
    return isinstance(v, SV)


def tag_of(v):
    if isinstance(v, SV):
        return v.tag
    if isinstance(v, bool):
        return "bool"
    if isinstance(v, int):
        return "int"
    if isinstance(v, float):
        return "real"
    if isinstance(v, (bytes, bytearray)):
        return "bytes"
    if isinstance(v, str):
        return "str"
    if v is None:
        return "none"
    if isinstance(v, OptV):
        return "opt"
    if isinstance(v, tuple):
        return "tuple"
    if isinstance(v, Ref):
        return v.kind
    return type(v).__name__


def z(v, want=None):
    """Lift a value to a z3 term (optionally coercing to tag `want`)."""
    if isinstance(v, SV):
        t, tag = v.t, v.tag
    elif isinstance(v, bool):
        t, tag = z3.BoolVal(v), "bool"
    elif isinstance(v, int):
        t, tag = z3.IntVal(v), "int"
    elif isinstance(v, float):
        t, tag = z3.RealVal(repr(v)), "real"
    elif isinstance(v, (bytes, bytearray)):
        t, tag = smt.bytes_lit(bytes(v)), "bytes"
    elif isinstance(v, str):
        t, tag = z3.StringVal(v), "str"
    else:
        raise TypeError(f"cannot lift {v!r}")
    if want and want != tag:
        if want == "int" and tag == "bool":
            return z3.If(t, 1, 0)
        if want == "real" and tag == "int":
            return z3.ToReal(t)
        if want == "real" and tag == "bool":
            return z3.ToReal(z3.If(t, 1, 0))
        raise TypeError(f"cannot coerce {tag} to {want}")
    return t


def simp(t):
    return z3.simplify(t)


def concrete(v):
    """Return (True, python_value) if SV holds a literal."""
    if not isinstance(v, SV):
        return True, v
    t = z3.simplify(v.t)
    if v.tag == "int" and z3.is_int_value(t):
        return True, t.as_long()
    if v.tag == "bool" and (z3.is_true(t) or z3.is_false(t)):
        return True, z3.is_true(t)
    if v.tag == "str" and z3.is_string_value(t):
        return True, t.as_string()
    return False, None


def zn(v):
    """None-ness as a z3 Bool."""
    n = isnone(v)
    return z3.BoolVal(n) if isinstance(n, bool) else n
