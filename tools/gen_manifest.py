#!/usr/bin/env python3
"""Regenerate MANIFEST.json from contracts/registry.py (claimed properties) + the texts below."""
import json, os, sys
ROOT = os.path.dirname(os.path.dirname(os.path.abspath(__file__)))
sys.path.insert(0, ROOT); sys.path.insert(0, "/repo")
sys.dont_write_bytecode = True
from contracts import registry as reg
from contracts.texts import TEXTS, NOT_APPLICABLE

CMD = "PYTHONDONTWRITEBYTECODE=1 PYTHONPATH=/verif:/repo python3-vt -m pyvc.check --property {pid} --tier {tier}"
all_ids = [json.loads(l)["id"] for l in open(os.path.join(ROOT, "properties.jsonl"))]
checks, na = [], []
for pid in all_ids:
    if pid in reg.PROPS and pid in TEXTS:
        t = TEXTS[pid]
        checks.append(dict(
            property_id=pid, quick_cmd=CMD.format(pid=pid, tier="quick"), thorough_cmd=CMD.format(pid=pid, tier="thorough"),
            evidence_file=f"/verif/evidence/{pid}.json",
            replay_cmd_template="PYTHONDONTWRITEBYTECODE=1 PYTHONPATH=/verif:/repo python3-vt -m pyvc.check --property " + pid + " --replay {path}",
            engine="pyvc",
            level_claimed=dict(category=reg.PROPS[pid].get("level", "proof"), text=t["level_text"], design_ref=t.get("design_ref", "DESIGN.md section 5")),
            level_note=t["level_note"], technique=t["technique"]))
    else:
        na.append(dict(property_id=pid, reason=NOT_APPLICABLE.get(pid, "check not built yet in this session (contract-based verification of this property is planned in DESIGN.md section 5; nothing is claimed until its obligations are generated from the real code)")))
m = dict(
    version=1,
    setup_cmd="python3-vt -c \"import z3, sys; sys.path[:0]=['/verif','/repo']; import pyvc.smt as s; assert s.selfcheck()\"",
    hooks=dict(guard="WEBSOCKET_CLIENT_VERIF", enable="no hooks: contracts are sidecar files under /verif/contracts; /repo is read, parsed and imported as it is",
               baseline_off_cmd="cd /repo && /venv/bin/python -m pytest -ra -q -p no:cacheprovider --timeout=900 --continue-on-collection-errors websocket/tests",
               source_commits=[], add_only=True),
    engines=[dict(name="pyvc", path="/verif/pyvc", serves_properties=[c["property_id"] for c in checks],
                  kind_free_text="contract-based deductive verification: VC generator over the AST of the real functions (re-read from /repo on every run), sidecar contracts, z3 back end")],
    checks=checks, not_applicable=na,
    notes="See DESIGN.md. Exit codes of every check: 0 all obligations discharged; 1 VIOLATION; 2 undecided (never a VIOLATION line); 3 checker error.")
json.dump(m, open(os.path.join(ROOT, "MANIFEST.json"), "w"), indent=1)
print("claimed:", [c["property_id"] for c in checks], "not_applicable:", len(na))
