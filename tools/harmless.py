#!/usr/bin/env python3
"""Behaviour-preserving edits of /repo that must NOT raise an alarm (brittleness guard; DESIGN.md 10.8).
Each edit is applied to a scratch worktree of /repo HEAD (VERIF_REPO), the 38 tests are run, then the named quick checks.
usage: python3 tools/harmless.py   -> prints one line per (edit, check); exit 1 if any check prints a VIOLATION line"""
import os, subprocess, sys, tempfile
ROOT = os.path.dirname(os.path.dirname(os.path.abspath(__file__)))
EDITS = [
 ("rename a local and swap min() arguments in recv_strict", "websocket/_abnf.py",
  "            bytes_ = self.recv(min(16384, shortage))\n            self.recv_buffer.append(bytes_)\n            shortage -= len(bytes_)",
  "            chunk = self.recv(min(shortage, 16384))\n            self.recv_buffer.append(chunk)\n            shortage -= len(chunk)", ["C02", "C03"]),
 ("reorder independent assignments in WebSocket.__init__", "websocket/_core.py",
  "        self.handshake_response = None\n        self.sock: Optional[socket.socket] = None\n\n        self.connected = False",
  "        self.connected = False\n        self.sock: Optional[socket.socket] = None\n        self.handshake_response = None\n", ["C08", "C12"]),
 ("equivalent reserved-bit test in ABNF.validate", "websocket/_abnf.py",
  "if self.rsv1 or self.rsv2 or self.rsv3:", "if any((self.rsv1, self.rsv2, self.rsv3)):", ["C05"]),
 ("rename a local in read_headers", "websocket/_http.py",
  "            kv = line.split(\":\", 1)\n            if len(kv) != 2:\n                raise WebSocketException(\"Invalid header\")\n            key, value = kv",
  "            parts = line.split(\":\", 1)\n            if len(parts) != 2:\n                raise WebSocketException(\"Invalid header\")\n            key, value = parts", ["C09", "C20"]),
 ("reorder two independent statements in teardown", "websocket/_app.py",
  "            self._stop_ping_thread()\n            self.keep_running = False\n            if self.sock:",
  "            self.keep_running = False\n            self._stop_ping_thread()\n            if self.sock:", ["C14", "C15"]),
 ("hoist host.lower() out of the loop in SimpleCookieJar.get", "websocket/_cookiejar.py",
  "        cookies = []\n        for domain, _ in self.jar.items():\n            host = host.lower()\n",
  "        cookies = []\n        host = host.lower()\n        for domain, _ in self.jar.items():\n", ["C20"]),
 ("string concatenation instead of an f-string in SimpleCookieJar.add", "websocket/_cookiejar.py",
  "                        domain = f\".{domain}\"\n                    domain = domain.lower()\n                    cookie = (",
  "                        domain = \".\" + domain\n                    domain = domain.lower()\n                    cookie = (", ["C20"]),
 ("reorder independent assignments in proxy_info.__init__", "websocket/_http.py",
  "            self.proxy_port = options.get(\"http_proxy_port\", 0)\n            self.auth = options.get(\"http_proxy_auth\", None)\n",
  "            self.auth = options.get(\"http_proxy_auth\", None)\n            self.proxy_port = options.get(\"http_proxy_port\", 0)\n", ["C19"]),
 ("explicit None test in WebSocketApp.close", "websocket/_app.py",
  "        self.keep_running = False\n        if self.sock:\n            self.sock.close(**kwargs)",
  "        self.keep_running = False\n        if self.sock is not None:\n            self.sock.close(**kwargs)", ["C14"]),
 ("a local for the data length in WrappedDispatcher.send", "websocket/_dispatcher.py",
  "        self.dispatcher.buffwrite(sock, data, send, self.handleDisconnect)\n        return len(data)",
  "        size = len(data)\n        self.dispatcher.buffwrite(sock, data, send, self.handleDisconnect)\n        return size", ["C12"]),
 ("mirror a comparison in check()", "websocket/_app.py",
  "                    time.time() - self.last_ping_tm > self.ping_timeout\n", "                    self.ping_timeout < time.time() - self.last_ping_tm\n", ["C16"]),
]


def sh(cmd, **kw):
    return subprocess.run(cmd, shell=True, capture_output=True, text=True, **kw)


def main():
    bad = 0
    only = sys.argv[1] if len(sys.argv) > 1 else None  # optional substring filter on the edit's name
    for name, path, old, new, props in EDITS:
        if only and only not in name:
            continue
        wt = tempfile.mkdtemp(prefix="wt_harmless_", dir="/tmp")
        os.rmdir(wt)
        sh(f"git -C /repo worktree add -q --detach {wt} HEAD")
        try:
            p = os.path.join(wt, path)
            s = open(p).read()
            if s.count(old) != 1:
                print(f"{name}: pattern not found (code changed) - skipped")
                continue
            open(p, "w").write(s.replace(old, new))
            tests = sh("/venv/bin/python -m pytest -q -p no:cacheprovider websocket/tests 2>&1 | tail -1", cwd=wt).stdout.strip()
            for pid in props:
                r = sh(f"VERIF_REPO={wt} VERIF_OUT=/tmp/harmless_out PYTHONDONTWRITEBYTECODE=1 PYTHONPATH={ROOT}:{wt} python3-vt -m pyvc.check --property {pid} --tier quick", cwd=ROOT)
                nv = sum(1 for l in r.stdout.splitlines() if l.startswith("VIOLATION"))
                bad += nv
                print(f"{name}: {pid} exit={r.returncode} violations={nv} tests: {tests[:10]}", flush=True)
        finally:
            sh(f"git -C /repo worktree remove --force {wt}")
    return 1 if bad else 0


if __name__ == "__main__":
    sys.exit(main())
