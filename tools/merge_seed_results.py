#!/usr/bin/env python3
"""Merge result files of partial tools/run_seeded.py runs (SEEDED_RESULTS=...) into seeded/RESULTS.json.
usage: merge_seed_results.py <label> file...   - later files win; entries taken from the files get "run": <label>; entries already in
RESULTS.json that no file mentions keep their "run" (or get "earlier run" if they have none)."""
import json, os, sys
ROOT = os.path.dirname(os.path.dirname(os.path.abspath(__file__)))
p = os.path.join(ROOT, "seeded", "RESULTS.json")
res = json.load(open(p)) if os.path.exists(p) else {}
label = sys.argv[1]
for sid, r in res.items():
    r.setdefault("run", "round-4 run (contracts as of /verif commit a9dce55; contracts were only strengthened since, see DESIGN 10.5)")
n = 0
for f in sys.argv[2:]:
    if not os.path.exists(f):
        continue
    for sid, r in json.load(open(f)).items():
        if not os.path.isdir(os.path.join(ROOT, "seeded", sid)):
            continue
        if not r.get("applies") and res.get(sid, {}).get("applies"):
            continue  # a run that started before the patch was re-based
        r["run"] = label
        res[sid] = r
        n += 1
res = {k: v for k, v in res.items() if os.path.isdir(os.path.join(ROOT, "seeded", k))}
json.dump(res, open(p, "w"), indent=1, sort_keys=True)
print(f"{n} entries merged; {len(res)} seeds in RESULTS.json; stored seeds without a result: "
      f"{sorted(d for d in os.listdir(os.path.join(ROOT, 'seeded')) if os.path.isdir(os.path.join(ROOT, 'seeded', d)) and d not in res)}")
