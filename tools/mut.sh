#!/bin/bash
# usage: mut.sh <file-rel-to-websocket/> <old> <new> <property> [extra pyvc.check args]   (scratch copy under /tmp, removed afterwards)
# development aid: one textual mutation of the real code, then the property's quick check against the scratch copy
f="$1"; old="$2"; new="$3"; prop="$4"; shift 4
VH="$(cd "$(dirname "$0")/.." && pwd)"
d=$(mktemp -d /tmp/mut.XXXXXX)
cp -r /repo/websocket "$d/websocket"
python3 - "$d/websocket/$f" "$old" "$new" <<'PY' || { rm -rf "$d"; exit 9; }
import sys
p,old,new=sys.argv[1:4]
s=open(p).read()
assert old in s, "pattern not found"
open(p,'w').write(s.replace(old,new,1))
PY
cd $VH && VERIF_REPO=$d VERIF_OUT=$d/out PYTHONDONTWRITEBYTECODE=1 PYTHONPATH=$VH:$d timeout 1500 python3-vt -m pyvc.check --property $prop --tier quick "$@" 2>&1 | grep -E "^(VIOLATION|UNDECIDED|CHECKER|C[0-9][0-9] \[)" | sed 's#replay=.*/replays/##' | cut -c1-220 | head -8
rm -rf "$d"
