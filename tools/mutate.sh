#!/bin/bash
# usage: mutate.sh <file-rel> <old> <new> -- <function keys...>   (scratch copy under /tmp, removed afterwards)
f="$1"; old="$2"; new="$3"; shift 4
d=$(mktemp -d /tmp/mut.XXXXXX)
cp -r /repo/websocket "$d/websocket"
python3 - "$d/$f" "$old" "$new" <<'PY' || { rm -rf "$d"; exit 9; }
import sys,re
p,old,new=sys.argv[1:4]
s=open(p).read()
assert old in s, "pattern not found"
open(p,'w').write(s.replace(old,new,1))
PY
cd /verif && PYTHONDONTWRITEBYTECODE=1 PYTHONPATH=/verif:$d timeout 900 python3-vt /tmp/t2.py "$@" 2>&1 | grep -E '^(failed|undecided|discharged [0-9]|Traceback|[A-Za-z]*Error)' | cut -c1-${MUT_COLS:-200} | head -${MUT_LINES:-6}
rm -rf "$d"
