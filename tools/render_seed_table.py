#!/usr/bin/env python3
"""Render seeded/RESULTS.json (written by tools/run_seeded.py) into the table of DESIGN.md section 10.5."""
import json, os, re
ROOT = os.path.dirname(os.path.dirname(os.path.abspath(__file__)))
res = json.load(open(os.path.join(ROOT, "seeded", "RESULTS.json")))
rows = ["| seed | breaks | change | caught by (quick check: exit, how) |", "|---|---|---|---|"]
missed = []
for sid in sorted(res):
    meta = json.load(open(os.path.join(ROOT, "seeded", sid, "meta.json")))
    r = res[sid]
    if not r.get("applies"):
        rows.append(f"| {sid} | {','.join(meta['breaks'])} | {meta['change']} | patch does not apply to HEAD |")
        continue
    cells = []
    caught = False
    for pid, c in r["checks"].items():
        if c["exit"] == 1 and c["violations"]:
            caught = True
            how = "input" if c["with_failing_input"] else "obligation"
            first = re.sub(r"^websocket\._", "", c["first"][0]).split(".json")[0][:70] if c["first"] else ""
            cells.append(f"{pid}: 1, {how} ({first})")
        else:
            cells.append(f"{pid}: {c['exit']}" + (" undecided" if c["exit"] == 2 else " not caught" if c["exit"] == 0 else ""))
    if not caught:
        missed.append(sid)
    old = " †" if str(r.get("run", "")).startswith("round-4") else ""
    rows.append(f"| {sid}{old} | {','.join(meta['breaks'])} | {meta['change'][:110]} | {'; '.join(cells)} |")
n = len(res)
summary = f"\n{n - len(missed)} of {n} seeded changes are reported as violations by at least one of the checks run on them" + \
          (f"; not caught: {', '.join(missed)}" if missed else "") + ".\n" + \
          "† result of the round-4 run: these seeds were not run again after the coverage-extension phase for lack of time (the C13-C16 checks take minutes " \
          "each); the contracts they are caught by were not weakened since.  All other rows were (re-)run on the final contracts of this phase.\n"
p = os.path.join(ROOT, "DESIGN.md")
s = open(p).read()
a, b = s.index("<!-- SEED-TABLE-BEGIN -->"), s.index("<!-- SEED-TABLE-END -->")
s = s[:a] + "<!-- SEED-TABLE-BEGIN -->\n" + "\n".join(rows) + "\n" + summary + s[b:]
open(p, "w").write(s)
print(summary)
