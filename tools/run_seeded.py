#!/usr/bin/env python3
"""Run the stored seeded changes against the checks (the table in DESIGN.md section 10.5 is produced by this script).

For every /verif/seeded/<id>/: (1) confirm the change in a scratch worktree of /repo HEAD (the 38-test baseline still passes with it,
demo.py exits 0 without and non-zero with it), (2) apply patch.diff to /repo itself, run the quick check of every property named in
meta.json "checks", and revert /repo (git checkout -- .).  Nothing is ever committed in /repo.  Evidence and replay files of these runs are written under /tmp/seeded_out (VERIF_OUT).
usage: python3 tools/run_seeded.py [id-regex]      -> writes seeded/RESULTS.json and prints one line per (seed, check)
With SEEDED_IN_WORKTREE=1 step (2) runs the checks against the scratch worktree carrying the change (VERIF_REPO) and /repo is not
touched at all - for runs that must not disturb other work on /repo.  SEEDED_RESULTS=<file> writes the results elsewhere."""
import json, os, re, subprocess, sys, tempfile, time

ROOT = os.path.dirname(os.path.dirname(os.path.abspath(__file__)))
REPO = "/repo"


def sh(cmd, **kw):
    return subprocess.run(cmd, shell=True, capture_output=True, text=True, **kw)


def main():
    pat = re.compile(sys.argv[1]) if len(sys.argv) > 1 else None
    res_path = os.environ.get("SEEDED_RESULTS") or os.path.join(ROOT, "seeded", "RESULTS.json")
    in_wt = os.environ.get("SEEDED_IN_WORKTREE") == "1"
    results = json.load(open(res_path)) if os.path.exists(res_path) else {}
    if not in_wt and sh(f"git -C {REPO} status --porcelain").stdout.strip():
        print("refusing to run: /repo has uncommitted changes")
        return 2
    for sid in sorted(os.listdir(os.path.join(ROOT, "seeded"))):
        sd = os.path.join(ROOT, "seeded", sid)
        if not os.path.isdir(sd) or (pat and not pat.search(sid)):
            continue
        meta = json.load(open(os.path.join(sd, "meta.json")))
        wt = tempfile.mkdtemp(prefix="wt_seed_", dir="/tmp")
        os.rmdir(wt)
        sh(f"git -C {REPO} worktree add -q --detach {wt} HEAD")
        try:
            clean = sh(f"PYTHONPATH={wt} timeout 180 /venv/bin/python {sd}/demo.py", cwd=wt).returncode
            ap = sh(f"git apply {sd}/patch.diff", cwd=wt)
            if ap.returncode:
                results[sid] = dict(applies=False, error=ap.stderr.strip()[:300])
                print(f"{sid}: PATCH DOES NOT APPLY")
                continue
            tests = sh("/venv/bin/python -m pytest -q -p no:cacheprovider websocket/tests 2>&1 | tail -1", cwd=wt).stdout.strip()
            mut = sh(f"PYTHONPATH={wt} timeout 180 /venv/bin/python {sd}/demo.py", cwd=wt).returncode
        finally:
            if not in_wt or ap.returncode:
                sh(f"git -C {REPO} worktree remove --force {wt}")
        entry = dict(applies=True, demo_clean_exit=clean, demo_changed_exit=mut, tests_with_change=tests, checks={})
        if not in_wt:
            sh(f"git -C {REPO} apply {sd}/patch.diff")
        tree = wt if in_wt else REPO
        out_dir = f"/tmp/seeded_out_{os.getpid()}"
        try:
            for pid in meta.get("checks", meta["breaks"]):
                t0 = time.time()
                # VERIF_OUT: evidence and replays of these runs on a changed tree go to a scratch directory, not into /verif
                r = sh(f"VERIF_REPO={tree} VERIF_OUT={out_dir} PYTHONDONTWRITEBYTECODE=1 PYTHONPATH={ROOT}:{tree} timeout 1800 python3-vt -m pyvc.check --property {pid} --tier quick", cwd=ROOT)
                viol = [l for l in r.stdout.splitlines() if l.startswith("VIOLATION")]
                und = [l[:200] for l in r.stdout.splitlines() if l.startswith("UNDECIDED")]
                entry["checks"][pid] = dict(exit=r.returncode, violations=len(viol), with_failing_input=sum(1 for l in viol if not l.endswith("no-failing-input-found")),
                                            first=[re.sub(r".*replay=\S*/replays/", "", l)[:160] for l in viol[:3]], undecided=und[:2], wall_s=round(time.time() - t0, 1))
                print(f"{sid} {pid}: exit={r.returncode} violations={len(viol)} demo clean/changed={clean}/{mut} tests: {tests[:20]}", flush=True)
        finally:
            if in_wt:
                sh(f"git -C {REPO} worktree remove --force {wt}")
            else:
                sh(f"git -C {REPO} checkout -- .")
            sh(f"rm -rf {out_dir}")
        results[sid] = entry
        json.dump(results, open(res_path, "w"), indent=1, sort_keys=True)
    return 0


if __name__ == "__main__":
    sys.exit(main())
