#!/bin/bash
# usage: seed_batch.sh <results file> <seed_dir>:<prop,prop,...> ...
# development helper: confirms each seeded change and runs the given checks against a scratch worktree carrying it
# (VERIF_REPO / VERIF_OUT), leaving /repo and /verif/evidence untouched.  The registered way (apply to /repo, run, revert)
# is tools/try_seed.sh / tools/run_seeded.sh.
res="$1"; shift
VH="${VERIF_HOME:-$(cd "$(dirname "$0")/.." && pwd)}"
for spec in "$@"; do
  sd="${spec%%:*}"; props="${spec##*:}"
  wt=/tmp/wt_seedrun_$$
  git -C /repo worktree add -q --detach $wt HEAD || exit 9
  cd $wt
  clean_demo=$(PYTHONPATH=$wt timeout 180 /venv/bin/python $sd/demo.py >/dev/null 2>&1; echo $?)
  if ! git apply $sd/patch.diff 2>/dev/null; then echo "SEED $sd PATCH-DOES-NOT-APPLY" >> $res; cd /; git -C /repo worktree remove --force $wt; continue; fi
  tests=$(/venv/bin/python -m pytest -q -p no:cacheprovider websocket/tests 2>&1 | tail -1)
  mut_demo=$(PYTHONPATH=$wt timeout 180 /venv/bin/python $sd/demo.py >/dev/null 2>&1; echo $?)
  echo "SEED $sd demo clean=$clean_demo mutated=$mut_demo tests: $tests" >> $res
  for p in ${props//,/ }; do
    out=$(cd $VH && VERIF_REPO=$wt VERIF_OUT=/tmp/seedout_$$ PYTHONDONTWRITEBYTECODE=1 PYTHONPATH=$VH:$wt timeout 1500 python3-vt -m pyvc.check --property $p --tier quick 2>&1)
    rc=$?
    nviol=$(echo "$out" | grep -c '^VIOLATION')
    echo "  CHECK $p on $sd: exit=$rc violations=$nviol :: $(echo "$out" | grep '^VIOLATION' | head -2 | sed 's/.*replay=[^ ]*replays.//' | tr '\n' ' ' | cut -c1-300)" >> $res
    echo "$out" | grep -E "^UNDECIDED|CHECKER-ERROR" | head -3 | cut -c1-300 >> $res
  done
  cd /; git -C /repo worktree remove --force $wt
done
rm -rf /tmp/seedout_$$
echo DONE >> $res
