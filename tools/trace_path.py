"""debug helper: replay one decision path of one contract case and print the contract applications along it.
usage: python3-vt tools/trace_path.py <key> <case> '<json path>'"""
import sys, json
sys.dont_write_bytecode = True
from pyvc.engine import Engine
import contracts.registry as reg
e = Engine(); reg.install_all(e)
key, case, path = sys.argv[1], sys.argv[2], json.loads(sys.argv[3])
orig = e.apply
def apply(c, ct, a, node):
    try:
        r = orig(c, ct, a, node); print("APPLY", ct.key.split(":")[-1], getattr(node, "lineno", None), "-> normal", repr(r)[:60], len(c.trace)); return r
    except Exception as ex:
        print("APPLY", ct.key.split(":")[-1], getattr(node, "lineno", None), "->", type(ex).__name__, getattr(getattr(ex, "exc", None), "cls", None), len(c.trace)); raise
e.apply = apply
rep = e.verify(key, only_case=case, roots=[path], split_only=True)
print(rep["cases"], rep["undecided"])
for r in e.results.values():
    if r["verdict"] != "discharged": print(r["name"], r["verdict"], (r.get("goal") or "")[:300], r.get("note"))
