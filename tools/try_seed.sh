#!/bin/bash
# usage: try_seed.sh <seed_dir> <property ids...>
# 1. confirms the seeded change in a scratch worktree (tests still pass, demo fails with / passes without the change)
# 2. applies it to /repo, runs the given checks, reverts /repo
sd="$1"; shift
wt=/tmp/wt_confirm_$$
git -C /repo worktree add -q --detach $wt HEAD || exit 9
cd $wt
clean_demo=$(PYTHONPATH=$wt timeout 120 /venv/bin/python $sd/demo.py >/dev/null 2>&1; echo $?)
git apply $sd/patch.diff || { echo "PATCH DOES NOT APPLY"; git -C /repo worktree remove --force $wt; exit 9; }
tests=$(/venv/bin/python -m pytest -q -p no:cacheprovider websocket/tests 2>&1 | tail -1)
mut_demo=$(PYTHONPATH=$wt timeout 120 /venv/bin/python $sd/demo.py >/dev/null 2>&1; echo $?)
cd /; git -C /repo worktree remove --force $wt
echo "CONFIRM $sd: demo clean=$clean_demo mutated=$mut_demo tests: $tests"
git -C /repo apply $sd/patch.diff
for p in "$@"; do
  out=$(cd /verif && PYTHONDONTWRITEBYTECODE=1 PYTHONPATH=/verif:/repo timeout 1500 python3-vt -m pyvc.check --property $p --tier quick 2>&1)
  rc=$?
  nviol=$(echo "$out" | grep -c '^VIOLATION')
  echo "CHECK $p on $sd: exit=$rc violations=$nviol :: $(echo "$out" | grep '^VIOLATION' | head -2 | sed 's/.*replay=//' | tr '\n' ' ')"
  echo "$out" | grep -E "^UNDECIDED|CHECKER-ERROR" | head -3
done
git -C /repo checkout -- .
git -C /verif checkout -- evidence 2>/dev/null
