"""debug helper: print a minimised unsat core of the path condition where a contract application made the path inconsistent.
usage: python3-vt tools/vacuity_core.py <contract key> <case>"""
import sys, z3
sys.dont_write_bytecode = True
from pyvc.engine import Engine
from pyvc import smt
import contracts.registry as reg


def flat(h):
    if z3.is_and(h):
        out = []
        for ch in h.children():
            out += flat(ch)
        return out
    return [h]


def main():
    e = Engine(max_paths=100000)
    reg.install_all(e)
    e.call_site_vacuity = False
    orig = e.apply
    seen = set()

    def apply(c, ct, a, node):
        try:
            r = orig(c, ct, a, node)
        except Exception:
            raise
        if c.dry:
            return r
        if c.solver.check() == z3.unsat:
            key = (ct.key, getattr(node, "lineno", None))
            if key not in seen:
                seen.add(key)
                pcs = []
                for h in c.pc:
                    pcs += flat(h)
                s = smt.mk_solver(20000)
                s.set(unsat_core=True)
                for i, h in enumerate(pcs):
                    s.assert_and_track(h, z3.Bool(f"h{i}"))
                print("VACUOUS after", key, "trace", c.trace, s.check())
                cur = sorted(int(str(x)[1:]) for x in s.unsat_core())
                for i in list(cur):
                    t = [j for j in cur if j != i]
                    s2 = smt.mk_solver(10000)
                    for j in t:
                        s2.add(pcs[j])
                    if s2.check() == z3.unsat:
                        cur = t
                for i in cur:
                    print("   CORE", i, str(pcs[i])[:1500].replace("\n", " "))
        return r
    e.apply = apply
    e.verify(sys.argv[1], only_case=sys.argv[2] if len(sys.argv) > 2 else None)


main()
