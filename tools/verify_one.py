import sys
sys.dont_write_bytecode = True
from pyvc.engine import Engine
import contracts.registry as reg
e = Engine(max_paths=100000); reg.install_all(e)
rep = e.verify(sys.argv[1], only_case=sys.argv[2])
bad=[r for r in e.results.values() if r["verdict"]!="discharged"]
print(rep["paths"], len(e.results), "obligations", len(bad), "not discharged", rep["undecided"][:1])
seen=set()
for r in bad:
    if r["name"] in seen: continue
    seen.add(r["name"]); print("  ", r["name"], (r.get("goal") or "")[:200].replace("\n"," "))
